package c01

import (
	"fmt"
	"sort"
	"strings"
	"testing"

	"github.com/pgavlin/dawn/verif/ev"
	"github.com/pgavlin/dawn/verif/projsim"
	"pgregory.net/rapid"
)

var run *ev.Run

func TestMain(m *testing.M) {
	projsim.MaybeChild()
	run = ev.Start("C01", "exploration",
		"rapid draws a project (1-4 packages, 0-2 helper modules, 2-8 function targets with explicit dependencies in three label forms, source files "+
			"(some shared), source directories, declared generated files consumed as sources by later targets, default/always targets, and bodies that "+
			"reference their constant as a global, default argument, closure variable, nested def, lambda in a global, helper function, helper constant, "+
			"flag value or another target) and a history of 4-14 operations: edits (source content/same content/revert, directory add/delete/rename/edit, "+
			"constants within and across classes incl. 256..65535, body and helper code, comments, docstrings, dependency edges, added/removed sources, "+
			"deleted generated files, flag values, unrelated files) interleaved with builds of arbitrary sub-targets (in process on a fresh Load, on the history's long-lived Project by Reload + Run as watch mode does, or in a "+
			"fresh child process; normal, always, dry, with a chosen body of the closure failing, or interrupted: the child process dies at the n-th hit of one of 12 named points inside bodies, record writes and the index write) and load-only operations (with or without the index). Every body writes a digest of all its inputs. Oracle: after every "+
			"build that reports success for X, the output and generated files of every target in X's closure (computed from the spec) are byte-equal to "+
			"those of a from-scratch build of a copy of the same tree; no body ran twice in one build. Non-trivial = a successful build whose closure had "+
			"a net input change pending and that was preceded by a partial, failed or dry build since that change, or a hard edit class (256..65535 "+
			"constant, rename in a source directory, dependency edge, deleted generated file). Distinct by case JSON.",
		"bodies depend only on inputs the property lists (declared sources, referenced code and values, dependency outputs)",
		"projects <= 4 packages, <= 8 targets, histories <= 14 operations",
	)
	ev.Main(m, run)
}

type Case struct {
	M   *projsim.Model `json:"m"`
	Ops []projsim.Op   `json:"ops"`
}

func hardClass(op projsim.Op) bool {
	switch op.Kind {
	case "dir-rename", "dep-add", "dep-del", "gen-del", "src-del", "src-add", "helper-const", "helper-code", "flag", "const-alias":
		return true
	case "const":
		var n int
		if _, err := fmt.Sscanf(op.S, "%d", &n); err == nil && n >= 256 && n <= 65535 && !strings.ContainsAny(op.S, ".[({\"") {
			return true
		}
	}
	return false
}

func exec(c Case) (v ev.Verdict) {
	if c.M == nil || len(c.M.Targets) == 0 {
		return ev.Verdict{Skip: "empty"}
	}
	sim, err := projsim.NewSim(c.M.Clone())
	if err != nil {
		return ev.Verdict{Skip: "mkdtemp"}
	}
	defer sim.Close()
	m := sim.M

	dirty := map[int]bool{} // targets with a pending net input change
	hardDirty := false      // pending change came from a hard edit class
	interleaved := false    // a partial / failed / dry / interrupted build happened while something was dirty
	crashedSince := false   // a build was interrupted and no successful build has been checked since
	classes := map[string]bool{}
	for n, op := range c.Ops {
		if op.Kind == "load" {
			// a fresh load that builds nothing (what `dawn list` and the REPL do); I odd: prefer the index
			r := sim.Build(projsim.BuildReq{NoRun: true, PreferIndex: op.I%2 == 1})
			if r.Panic != "" {
				return ev.Failf("panic", "op %d (load): panic: %s", n, r.Panic)
			}
			classes["load-only"] = true
			if len(dirty) > 0 {
				interleaved = true
			}
			continue
		}
		if !op.IsBuild() {
			info := sim.ApplyEdit(op)
			if !info.Applied {
				continue
			}
			classes["edit:"+info.Class] = true
			if info.Semantic {
				for _, a := range info.Affected {
					for _, d := range m.Dependents(a) {
						dirty[d] = true
					}
				}
				if hardClass(op) {
					hardDirty = true
				}
			}
			continue
		}
		live := m.Live()
		if len(live) == 0 {
			continue
		}
		id := m.BuildTarget(op)
		label := m.Label(id)
		if m.Targets[id].Default && op.I%2 == 1 {
			label = m.Pkgs[m.Targets[id].Pkg] + ":default"
		}
		for _, f := range op.Fail {
			// the failing body is one of the requested target's closure
			cl := m.Closure(id)
			sim.SetFail(m.Targets[cl[f%len(cl)]].Name(), true)
		}
		req := projsim.BuildReq{Label: label, Always: op.Always, DryRun: op.Dry, PreferIndex: false}
		if op.Crash != "" {
			req.CrashSite, req.CrashHit = op.Crash, op.CrashHit
		}
		var res projsim.BuildResult
		if op.Child || op.Crash != "" {
			res = sim.ChildBuild(req)
			classes["build:child"] = true
		} else if op.Watch && !op.Dry {
			res = sim.WatchBuild(req)
			classes["build:watch-reload"] = true
		} else {
			res = sim.Build(req)
		}
		sim.ClearFails()
		where := fmt.Sprintf("op %d (build %s always=%v dry=%v child=%v fail=%v)", n, label, op.Always, op.Dry, op.Child, op.Fail)
		if res.Crashed {
			// the process died at the armed point: an interrupted build. Nothing is claimed about it;
			// the builds after it are held to the same oracle as ever.
			classes["build:interrupted"] = true
			classes["interrupted-at:"+op.Crash] = true
			interleaved = true
			crashedSince = true
			continue
		}
		if res.Panic != "" {
			return ev.Failf("panic", "%s: panic: %s", where, res.Panic)
		}
		if res.ExitCode != 0 {
			return ev.Failf("child-died", "%s: the build process died with status %d: %s", where, res.ExitCode, res.Stderr)
		}
		// no body twice in one build
		seen := map[string]bool{}
		for _, l := range res.Executed() {
			if seen[l] {
				return ev.Failf("body-ran-twice", "%s: the body of %s ran twice in one build", where, l)
			}
			seen[l] = true
		}
		closure := m.Closure(id)
		if res.OK() && !op.Dry {
			// "any successful execution of one of its dependencies" is an input: a dependent of a
			// target that executed in this build executes in this build too, after it.
			start, end := map[string]int{}, map[string]int{}
			for i, e := range res.Log {
				if e.Phase == "start" {
					start[e.Label] = i + 1
				} else if e.Phase == "end" {
					end[e.Label] = i + 1
				}
			}
			for _, t := range closure {
				for _, d := range m.DirectDeps(t) {
					if end[m.Label(d)] == 0 {
						continue
					}
					if start[m.Label(t)] == 0 {
						return ev.Failf("dependent-not-rerun", "%s: %s executed in this build but its dependent %s did not", where, m.Label(d), m.Label(t))
					}
					if start[m.Label(t)] < end[m.Label(d)] {
						return ev.Failf("dependent-before-dependency", "%s: %s started before its dependency %s finished", where, m.Label(t), m.Label(d))
					}
				}
			}
		}
		anyDirty := false
		for _, t := range closure {
			if dirty[t] {
				anyDirty = true
			}
		}
		switch {
		case op.Dry:
			classes["build:dry"] = true
		case !res.OK():
			classes["build:failed"] = true
		case len(closure) < len(live):
			classes["build:partial"] = true
		default:
			classes["build:full"] = true
		}
		if !res.OK() || op.Dry {
			if len(dirty) > 0 {
				interleaved = true
			}
			continue
		}
		// successful real build: compare with a from-scratch build of the same tree
		twin, products := sim.CleanBuild(projsim.BuildReq{Label: label, Always: op.Always})
		if !twin.OK() {
			return ev.Failf("incremental-succeeds-scratch-fails", "%s succeeded, but a from-scratch build of the same tree fails: load=%q run=%q panic=%q", where, twin.LoadErr, twin.RunErr, twin.Panic)
		}
		for _, t := range closure {
			if m.Targets[t].Removed {
				continue
			}
			paths := []string{m.OutPath(t)}
			if m.Targets[t].Gen {
				paths = append(paths, m.GenPath(t))
			}
			for _, p := range paths {
				got, ok := sim.ReadFile(p)
				want, wok := products[p]
				if !wok {
					return ev.Failf("scratch-build-missing-product", "%s: the from-scratch build did not produce %s (harness problem?)", where, p)
				}
				if !ok {
					return ev.Failf("missing-output", "%s reported success but %s (of %s) does not exist", where, p, m.Label(t))
				}
				if got != want {
					executed := res.Executed()
					sort.Strings(executed)
					return ev.Failf("stale", "%s reported success but %s is stale: %s differs from a from-scratch build of the same tree (executed in this build: %v)", where, m.Label(t), p, executed)
				}
			}
		}
		if crashedSince {
			classes["build:after-interruption"] = true
			crashedSince = false
			v.NonTrivial = true
		}
		if anyDirty {
			classes["build:after-change"] = true
			if interleaved || hardDirty {
				v.NonTrivial = true
			}
		}
		for _, t := range closure {
			delete(dirty, t)
		}
		if len(dirty) == 0 {
			interleaved, hardDirty = false, false
		}
	}
	for k := range classes {
		v.Classes = append(v.Classes, k)
	}
	sort.Strings(v.Classes)
	return v
}

func gen(t *rapid.T) Case {
	m := projsim.GenModel(t, 8, false)
	n := rapid.IntRange(4, 14).Draw(t, "nops")
	var ops []projsim.Op
	ops = append(ops, projsim.Op{Kind: "build", T: len(m.Targets) - 1}) // first: build the last target (usually most of the graph)
	for i := 0; i < n; i++ {
		switch rapid.IntRange(0, 9).Draw(t, "opclass") {
		case 0, 1, 2, 3:
			ops = append(ops, projsim.GenEdit(t, projsim.SemanticEdits()))
		case 4:
			if rapid.IntRange(0, 2).Draw(t, "loadop") == 2 {
				ops = append(ops, projsim.Op{Kind: "load", I: rapid.IntRange(0, 1).Draw(t, "lidx")})
			} else {
				ops = append(ops, projsim.GenEdit(t, projsim.NoopEdits()))
			}
		default:
			b := projsim.GenBuild(t, true, true, run.Tier == "thorough")
			if rapid.IntRange(0, 7).Draw(t, "interrupt") == 5 {
				b = projsim.GenCrash(t, b)
			} else if !b.Child && rapid.IntRange(0, 3).Draw(t, "watch") == 3 {
				b.Watch = true
			}
			ops = append(ops, b)
		}
	}
	if rapid.IntRange(0, 2).Draw(t, "pattern") == 2 {
		// edit, build with a failing body, a load or build that does not reach it, then the build again
		x := rapid.IntRange(0, 11).Draw(t, "px")
		ops = append(ops, projsim.GenEdit(t, projsim.SemanticEdits()))
		ops = append(ops, projsim.Op{Kind: "build", T: x, Fail: []int{rapid.IntRange(0, 11).Draw(t, "pf")}})
		if rapid.Bool().Draw(t, "pload") {
			ops = append(ops, projsim.Op{Kind: "load", I: rapid.IntRange(0, 1).Draw(t, "pidx")})
		} else {
			ops = append(ops, projsim.Op{Kind: "build", T: rapid.IntRange(0, 11).Draw(t, "py")})
		}
		ops = append(ops, projsim.Op{Kind: "build", T: x})
	}
	if rapid.IntRange(0, 3).Draw(t, "pattern2") == 3 {
		// A-B-A around an interrupted build: a source changes, a build is interrupted, the change is
		// taken back, another target is built, then the first again
		x, a, i := rapid.IntRange(0, 11).Draw(t, "qx"), rapid.IntRange(0, 11).Draw(t, "qa"), rapid.IntRange(0, 11).Draw(t, "qi")
		owner := rapid.IntRange(0, 2).Draw(t, "qowner") > 0
		if owner {
			x = a // the interrupted build is aimed at the target that declares the edited source
		}
		ops = append(ops, projsim.Op{Kind: "src-revert", T: a, I: i})
		ops = append(ops, projsim.Op{Kind: "build", T: x, Owner: owner})
		ops = append(ops, projsim.Op{Kind: "src-new", T: a, I: i, S: "interrupted edit\n"})
		ops = append(ops, projsim.GenCrash(t, projsim.Op{Kind: "build", T: x, Owner: owner, Always: rapid.IntRange(0, 3).Draw(t, "qalways") == 3}))
		ops = append(ops, projsim.Op{Kind: "src-revert", T: a, I: i})
		ops = append(ops, projsim.Op{Kind: "build", T: rapid.IntRange(0, 11).Draw(t, "qy")})
		ops = append(ops, projsim.Op{Kind: "build", T: x, Owner: owner})
	}
	if rapid.IntRange(0, 3).Draw(t, "pattern3") == 3 {
		// one source edited twice with near-identical contents (same head, same tail, same length, same
		// bytes in another order), its owner built after each edit
		a, i := rapid.IntRange(0, 11).Draw(t, "ra"), rapid.IntRange(0, 11).Draw(t, "ri")
		pair := rapid.SampledFrom([][2]string{
			{strings.Repeat("shared prefix 0123456789 ", 8) + "A\n", strings.Repeat("shared prefix 0123456789 ", 8) + "B\n"},
			{strings.Repeat("x", 100) + "A" + strings.Repeat("y", 100), strings.Repeat("x", 100) + "B" + strings.Repeat("y", 100)},
			{"ab\n", "ba\n"}, {"a\n", "a\r\n"}, {"data", "data\x00"}, {"one\n", "one\ntwo\n"},
		}).Draw(t, "rpair")
		ops = append(ops, projsim.Op{Kind: "src-new", T: a, I: i, S: pair[0]})
		ops = append(ops, projsim.Op{Kind: "build", T: a, Owner: true})
		ops = append(ops, projsim.Op{Kind: "src-new", T: a, I: i, S: pair[1]})
		ops = append(ops, projsim.Op{Kind: "build", T: a, Owner: true})
	}
	ops = append(ops, projsim.GenBuild(t, false, false, false))
	return Case{M: m, Ops: ops}
}

func TestC01(t *testing.T) {
	ev.Explore(run, t, "history", run.N(120, 1000), gen, exec)
}
