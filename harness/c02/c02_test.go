package c02

import (
	"fmt"
	"sort"
	"strings"
	"testing"

	"github.com/pgavlin/dawn/verif/ev"
	"github.com/pgavlin/dawn/verif/projsim"
	"pgregory.net/rapid"
)

var run *ev.Run

func TestMain(m *testing.M) {
	projsim.MaybeChild()
	run = ev.Start("C02", "exploration",
		"rapid draws a project as in C01 (no 'always' targets; in a quarter of the cases one or two declared source files do not exist on disk) and a target X. X is built successfully in a fresh child process; then 0-4 no-op-class "+
			"operations are applied: nothing, same-content rewrite, delete+recreate with the same content (also inside a source directory), an edit of a "+
			"source or of a target (constant, body, source) outside X's closure in a package whose BUILD file holds no target of the closure, comment / "+
			"blank-line / docstring insertion anywhere (X's own BUILD file and helper modules included), an unrelated file, a dry run, a garbage "+
			"collection; then X is rebuilt in another fresh child process (new address space, new map seeds) under a generated package load order "+
			"(a permutation imposed through gates in the BUILD files, or free-running). Oracle: the rebuild executes no body and reports no "+
			"TargetEvaluating for any target or source of X's closure; when nothing was edited at all, no target of the project is evaluated. "+
			"A second check applies the rule to every build of arbitrary C01-style histories: a target may execute only if it, or something in "+
			"its closure, was never built, had an input change since its last successful execution, failed last time, is 'always', or shares its BUILD "+
			"file with a semantically edited statement. Non-trivial = >=1 no-op-class operation was applied and the closure has >=3 targets over >=2 "+
			"packages or uses a helper module (history check: >=2 builds judged). "+
			"Distinct by case JSON.",
		"same-file edits of other targets are not in the no-op class (they may legitimately shift bytecode indices)",
	)
	ev.Main(m, run)
}

type Case struct {
	M      *projsim.Model `json:"m"`
	X      int            `json:"x"`
	Ops    []projsim.Op   `json:"ops"`
	Order1 []int          `json:"order1"`           // package permutation for the first build (empty = free)
	Order2 []int          `json:"order2"`           // for the rebuild
	Index  bool           `json:"index"`            // rebuild of a second kind: load with PreferIndex first (as the CLI's list commands do) between the builds
	Absent []int          `json:"absent,omitempty"` // selectors of declared source files that do not exist on disk (from the start)
}

func order(m *projsim.Model, perm []int) []string {
	if len(perm) == 0 {
		return nil
	}
	seen := map[int]bool{}
	var out []string
	for _, p := range perm {
		p = p % len(m.Pkgs)
		if !seen[p] {
			seen[p] = true
			out = append(out, m.Pkgs[p])
		}
	}
	for p := range m.Pkgs {
		if !seen[p] {
			out = append(out, m.Pkgs[p])
		}
	}
	return out
}

func exec(c Case) (v ev.Verdict) {
	if c.M == nil || len(c.M.Targets) == 0 {
		return ev.Verdict{Skip: "empty"}
	}
	model := c.M.Clone()
	for i := range model.Targets {
		model.Targets[i].Always = false
	}
	model.Gated = true
	if len(c.Absent) > 0 {
		var files []string
		for f := range model.Files {
			if f != "junk.txt" {
				files = append(files, f)
			}
		}
		sort.Strings(files)
		for _, a := range c.Absent {
			if len(files) > 0 {
				delete(model.Files, files[a%len(files)])
			}
		}
	}
	sim, err := projsim.NewSim(model)
	if err != nil {
		return ev.Verdict{Skip: "mkdtemp"}
	}
	defer sim.Close()
	m := sim.M
	live := m.Live()
	x := live[c.X%len(live)]
	label := m.Label(x)
	closure := m.Closure(x)
	inClosure := map[int]bool{}
	pkgsOfClosure := map[int]bool{}
	usesHelper := false
	for _, t := range closure {
		inClosure[t] = true
		pkgsOfClosure[m.Targets[t].Pkg] = true
		if b := m.Targets[t].Body; (b == 5 || b == 6) && len(m.Helpers) > 0 {
			usesHelper = true
		}
	}

	first := sim.ChildBuild(projsim.BuildReq{Label: label, Order: order(m, c.Order1)})
	if first.ExitCode != 0 {
		return ev.Failf("child-died", "first build of %s: process died with status %d: %s", label, first.ExitCode, first.Stderr)
	}
	if !first.OK() {
		return ev.Failf("first-build-failed", "first build of %s failed: load=%q run=%q panic=%q", label, first.LoadErr, first.RunErr, first.Panic)
	}

	applied := 0
	var classes []string
	for _, op := range c.Ops {
		switch op.Kind {
		case "dry":
			r := sim.ChildBuild(projsim.BuildReq{Label: label, DryRun: true})
			if len(r.Executed()) > 0 {
				return ev.Failf("dry-run-executed", "a dry run of %s executed %v", label, r.Executed())
			}
			applied++
			classes = append(classes, "op:dry")
		case "gc":
			sim.ChildBuild(projsim.BuildReq{Label: label, GC: "before", NoRun: true})
			applied++
			classes = append(classes, "op:gc")
		case "index-load":
			sim.ChildBuild(projsim.BuildReq{Label: label, PreferIndex: true, NoRun: true})
			applied++
			classes = append(classes, "op:index-load")
		case "outside":
			// semantic edit of a target outside the closure, in a package without closure targets
			var cands []int
			for _, t := range m.Live() {
				if !inClosure[t] && !pkgsOfClosure[m.Targets[t].Pkg] {
					cands = append(cands, t)
				}
			}
			if len(cands) == 0 {
				continue
			}
			t := cands[op.T%len(cands)]
			switch op.I % 3 {
			case 0:
				m.Targets[t].K = op.S
			case 1:
				m.Targets[t].Salt++
			default:
				if len(m.Targets[t].Sources) > 0 {
					f := m.Rel(m.Targets[t].Pkg, m.Targets[t].Sources[0])
					shared := false
					for _, ct := range closure {
						for _, sname := range m.Targets[ct].Sources {
							if m.Rel(m.Targets[ct].Pkg, sname) == f {
								shared = true
							}
						}
					}
					if shared {
						continue
					}
					m.Files[f] += "edited outside\n"
				}
			}
			sim.Sync()
			applied++
			classes = append(classes, "op:outside-closure-edit")
		default:
			info := sim.ApplyEdit(op)
			if info.Applied && !info.Semantic {
				applied++
				classes = append(classes, "op:"+info.Class)
			} else if info.Semantic {
				return ev.Verdict{Skip: "generator-produced-semantic-edit"}
			}
		}
	}

	second := sim.ChildBuild(projsim.BuildReq{Label: label, Order: order(m, c.Order2)})
	if second.ExitCode != 0 {
		return ev.Failf("child-died", "rebuild of %s: process died with status %d: %s", label, second.ExitCode, second.Stderr)
	}
	if !second.OK() {
		return ev.Failf("rebuild-failed", "rebuild of %s failed: load=%q run=%q panic=%q", label, second.LoadErr, second.RunErr, second.Panic)
	}
	v.Classes = classes
	if len(c.Absent) > 0 {
		v.Classes = append(v.Classes, "declared-source-absent")
	}
	if len(c.Order2) > 0 {
		v.Classes = append(v.Classes, "ordered-load")
	} else {
		v.Classes = append(v.Classes, "free-load")
	}
	pk := map[int]bool{}
	for _, t := range closure {
		pk[m.Targets[t].Pkg] = true
	}
	if applied > 0 && ((len(closure) >= 3 && len(pk) >= 2) || usesHelper) {
		v.NonTrivial = true
	}
	if ex := second.Executed(); len(ex) > 0 {
		sort.Strings(ex)
		reasons := []string{}
		for _, e := range second.Events {
			if e.Kind == "Evaluating" {
				reasons = append(reasons, e.Label+": "+e.Text)
			}
		}
		return ev.Failf("spurious-rebuild", "rebuild of %s after only no-op-class operations %v executed %v (reasons: %v)", label, classes, ex, reasons)
	}
	closureLabels := map[string]bool{}
	for _, t := range closure {
		closureLabels[m.Label(t)] = true
	}
	for _, e := range second.Events {
		if e.Kind != "Evaluating" {
			continue
		}
		if closureLabels[e.Label] || strings.HasPrefix(e.Label, "source:") || applied == 0 {
			return ev.Failf("spurious-evaluating", "rebuild of %s after only no-op-class operations %v reports TargetEvaluating for %s (%s)", label, classes, e.Label, e.Text)
		}
	}
	_ = fmt.Sprint
	return v
}

func gen(t *rapid.T) Case {
	m := projsim.GenModel(t, 8, false)
	c := Case{M: m, X: rapid.IntRange(0, 11).Draw(t, "x")}
	n := rapid.IntRange(0, 4).Draw(t, "nops")
	for i := 0; i < n; i++ {
		switch k := rapid.IntRange(0, 11).Draw(t, "opk"); k {
		case 8:
			c.Ops = append(c.Ops, projsim.Op{Kind: "dry"})
		case 9:
			c.Ops = append(c.Ops, projsim.Op{Kind: "gc"})
		case 10:
			c.Ops = append(c.Ops, projsim.Op{Kind: "index-load"})
		case 6, 7, 11:
			c.Ops = append(c.Ops, projsim.Op{Kind: "outside", T: rapid.IntRange(0, 7).Draw(t, "ot"), I: rapid.IntRange(0, 2).Draw(t, "oi"), S: projsim.GenConst(t)})
		default:
			c.Ops = append(c.Ops, projsim.GenEdit(t, projsim.NoopEdits()))
		}
	}
	if rapid.IntRange(0, 3).Draw(t, "absent") == 3 {
		c.Absent = rapid.SliceOfN(rapid.IntRange(0, 11), 1, 2).Draw(t, "absentsel")
	}
	if rapid.Bool().Draw(t, "ord1") {
		c.Order1 = rapid.SliceOfN(rapid.IntRange(0, 3), 1, 4).Draw(t, "order1")
	}
	if rapid.IntRange(0, 2).Draw(t, "ord2") != 0 {
		c.Order2 = rapid.SliceOfN(rapid.IntRange(0, 3), 1, 4).Draw(t, "order2")
	}
	return c
}

func TestC02(t *testing.T) {
	ev.Explore(run, t, "noop-rebuild", run.N(300, 3000), gen, exec)
}
