package c02

import (
	"fmt"
	"sort"
	"testing"

	"github.com/pgavlin/dawn/verif/ev"
	"github.com/pgavlin/dawn/verif/projsim"
	"pgregory.net/rapid"
)

// HistoryCase: the no-spurious-rebuild rule applied to every build of an arbitrary history.
type HistoryCase struct {
	M   *projsim.Model `json:"m"`
	Ops []projsim.Op   `json:"ops"`
}

var buildFileEdits = map[string]bool{"const": true, "const-alias": true, "ord-add": true, "ord-del": true, "body": true, "dep-add": true, "dep-del": true, "src-add": true, "src-del": true, "target-add": true, "target-del": true}

func execHistory(c HistoryCase) (v ev.Verdict) {
	if c.M == nil || len(c.M.Targets) == 0 {
		return ev.Verdict{Skip: "empty"}
	}
	sim, err := projsim.NewSim(c.M.Clone())
	if err != nil {
		return ev.Verdict{Skip: "mkdtemp"}
	}
	defer sim.Close()
	m := sim.M
	// per target: may it legitimately execute in the next build?
	never := map[int]bool{}  // no successful execution yet
	dirty := map[int]bool{}  // a direct input changed since its last successful execution
	failed := map[int]bool{} // its last execution failed
	exempt := map[int]bool{} // another statement of its BUILD file changed semantically (bytecode indices may shift)
	for _, t := range m.Live() {
		never[t] = true
	}
	checked := 0
	for n, op := range c.Ops {
		if op.Kind == "load" {
			sim.Build(projsim.BuildReq{NoRun: true, PreferIndex: op.I%2 == 1})
			continue
		}
		if !op.IsBuild() {
			before := len(m.Targets)
			info := sim.ApplyEdit(op)
			if !info.Applied {
				continue
			}
			for _, a := range info.Affected {
				dirty[a] = true
			}
			for t := before; t < len(m.Targets); t++ {
				never[t] = true
			}
			if buildFileEdits[info.Class] {
				pk := map[int]bool{}
				for _, a := range info.Affected {
					pk[m.Targets[a].Pkg] = true
				}
				if info.Class == "target-add" {
					pk[m.Targets[len(m.Targets)-1].Pkg] = true
				}
				for _, t := range m.Live() {
					if pk[m.Targets[t].Pkg] {
						exempt[t] = true
					}
				}
			}
			continue
		}
		live := m.Live()
		if len(live) == 0 {
			continue
		}
		id := live[op.T%len(live)]
		label := m.Label(id)
		cl := m.Closure(id)
		for _, f := range op.Fail {
			sim.SetFail(m.Targets[cl[f%len(cl)]].Name(), true)
		}
		var res projsim.BuildResult
		req := projsim.BuildReq{Label: label, Always: op.Always, DryRun: op.Dry}
		if op.Child {
			res = sim.ChildBuild(req)
		} else if op.Watch && !op.Dry {
			// on the history's long-lived Project: Reload + Run, as watch mode does, while other builds of the
			// history come from fresh loads and other processes (a `dawn build` in another terminal)
			res = sim.WatchBuild(req)
			v.Classes = append(v.Classes, "build:watch-reload")
		} else {
			res = sim.Build(req)
		}
		sim.ClearFails()
		if res.Panic != "" || res.ExitCode != 0 {
			return ev.Failf("crash", "op %d: build of %s crashed: %s %s", n, label, res.Panic, res.Stderr)
		}
		if op.Dry || res.LoadErr != "" {
			continue
		}
		idOf := map[string]int{}
		for _, t := range m.Live() {
			idOf[m.Label(t)] = t
		}
		executed := map[int]bool{}
		for _, l := range res.Executed() {
			if t, ok := idOf[l]; ok {
				executed[t] = true
			}
		}
		// may t run? it or something in its closure has a reason
		mayRun := func(t int) (bool, string) {
			for _, x := range m.Closure(t) {
				switch {
				case never[x]:
					return true, "never built"
				case dirty[x]:
					return true, "input changed"
				case failed[x]:
					return true, "failed last time"
				case exempt[x]:
					return true, "build file changed"
				case m.Targets[x].Always:
					return true, "always"
				case m.Targets[x].Removed:
					return true, "removed dependency"
				}
			}
			return false, ""
		}
		if !op.Always {
			var spurious []string
			for t := range executed {
				if ok, _ := mayRun(t); !ok {
					spurious = append(spurious, m.Label(t))
				}
			}
			if len(spurious) > 0 {
				sort.Strings(spurious)
				reasons := []string{}
				for _, e := range res.Events {
					if e.Kind == "Evaluating" {
						reasons = append(reasons, e.Label+": "+e.Text)
					}
				}
				return ev.Failf("spurious-rebuild-in-history", "op %d (build %s): %v executed although none of their inputs changed since their last successful execution (reasons given: %v)", n, label, spurious, reasons)
			}
			checked++
		}
		// update the bookkeeping from what happened
		ended := map[int]bool{}
		for _, e := range res.Log {
			if e.Phase == "end" {
				if t, ok := idOf[e.Label]; ok {
					ended[t] = true
				}
			}
		}
		upToDate := map[int]bool{}
		for _, e := range res.Events {
			if e.Kind == "UpToDate" {
				if t, ok := idOf[e.Label]; ok {
					upToDate[t] = true
				}
			}
		}
		failedNow := map[int]bool{}
		for _, e := range res.Events {
			if e.Kind == "Failed" {
				if t, ok := idOf[e.Label]; ok {
					failedNow[t] = true
				}
			}
		}
		for t := range executed {
			if ended[t] && !failedNow[t] {
				never[t], dirty[t], failed[t], exempt[t] = false, false, false, false
			} else {
				failed[t] = true
			}
		}
		for t := range upToDate {
			exempt[t] = false
		}
		// "any successful execution of one of its dependencies" is an input of a dependent
		for x := range executed {
			if !ended[x] || failedNow[x] {
				continue
			}
			for _, t := range m.Live() {
				if executed[t] {
					continue
				}
				for _, d := range m.DirectDeps(t) {
					if d == x {
						dirty[t] = true
					}
				}
			}
		}
	}
	if checked >= 2 {
		v.NonTrivial = true
	}
	v.Classes = append(v.Classes, fmt.Sprintf("builds-checked:%d", min(checked, 6)))
	return v
}

func genHistory(t *rapid.T) HistoryCase {
	m := projsim.GenModel(t, 8, false)
	n := rapid.IntRange(5, 14).Draw(t, "nops")
	ops := []projsim.Op{{Kind: "build", T: len(m.Targets) - 1}}
	for i := 0; i < n; i++ {
		switch rapid.IntRange(0, 9).Draw(t, "opclass") {
		case 0, 1:
			ops = append(ops, projsim.GenEdit(t, projsim.SemanticEdits()))
		case 2, 3:
			ops = append(ops, projsim.GenEdit(t, projsim.NoopEdits()))
		case 4:
			ops = append(ops, projsim.Op{Kind: "load", I: rapid.IntRange(0, 1).Draw(t, "lidx")})
		default:
			b := projsim.GenBuild(t, true, true, true)
			if !b.Child && !b.Dry && rapid.IntRange(0, 2).Draw(t, "watch") == 2 {
				b.Watch = true
			}
			ops = append(ops, b)
		}
	}
	return HistoryCase{M: m, Ops: ops}
}

func TestC02History(t *testing.T) {
	ev.Explore(run, t, "history", run.N(60, 1000), genHistory, execHistory)
}
