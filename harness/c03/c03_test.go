package c03

import (
	"fmt"
	"os"
	"path/filepath"
	"sort"
	"strings"
	"testing"

	"github.com/pgavlin/dawn/verif/ev"
	"github.com/pgavlin/dawn/verif/projsim"
	"pgregory.net/rapid"
)

var run *ev.Run

func TestMain(m *testing.M) {
	projsim.MaybeChild()
	run = ev.Start("C03", "fault_enumeration",
		"rapid draws a project (as C01), a prefix history (full build, then 1-3 input-changing edits; a quarter of the faulty builds are forced ones, half of those on an unchanged tree), a fault and 0-3 further operations. Fault = a chosen "+
			"body fails, or the build process exits at a named crash point: before / inside / after a body, after the record's temp file is created, after "+
			"it is encoded, before and after its rename (also for failure records and for the load-time record refresh), after packages are loaded, after "+
			"linking, after index.json is created (truncated) and after it is written. The faulty build is first run un-faulted in counting mode from a "+
			"snapshot to list every (site, label, occurrence) it passes; quick replays the scenario for up to 6 of them chosen by rapid, thorough for every "+
			"one (complete enumeration of the crash points of that build). Each replay kills a child process at the point and then checks in new loads: "+
			"(1) the project loads, also when the index is preferred; loading changes nothing outside .dawn/build; (2) every target whose body had started "+
			"but not finished, or had failed, executes in the next successful build that contains it; (3) that build and the final build after the further "+
			"operations produce the same bytes as a from-scratch build of the same tree. Non-trivial = the fault hit strictly between the first and the "+
			"last persistent effect of the build and some target depends on the interrupted one. Distinct by (case, crash point) JSON.",
		"crash = process exit at a Go-level boundary; torn or reordered disk writes are not modelled and rename(2) is assumed atomic",
		"the set of other targets already completed at a given crash point depends on the real scheduler; the oracle does not",
	)
	ev.Main(m, run)
}

type Case struct {
	M      *projsim.Model `json:"m"`
	Edits  []projsim.Op   `json:"edits"`
	FailT  int            `json:"failt"`            // body failure variant: target selector (-1 = none)
	Hits   []int          `json:"hits"`             // selectors of crash points to replay (quick)
	After  []projsim.Op   `json:"after"`            // further operations before the final build
	Only   *Hit           `json:"only,omitempty"`   // replay files: exactly this crash point
	// DryFirst: the faulty build is the second run of one loaded project whose first run was a dry run
	// (the REPL's run(dry_run=True) followed by run())
	DryFirst bool `json:"dryfirst,omitempty"`
	Forced bool           `json:"forced,omitempty"` // the faulty build is a forced one (build --always)
}

type Hit struct {
	Site  string `json:"site"`
	Label string `json:"label"`
	N     int    `json:"n"`
	// Tear > 0 (site index.afterEncode only): the process died while it was writing index.json in place -
	// the file holds the first Tear/17 of its bytes
	Tear int `json:"tear,omitempty"`
}

// tearIndex cuts the project's index.json to the first k/17 of its bytes.
func tearIndex(sim *projsim.Sim, k int) {
	p := filepath.Join(sim.Env.Root(), ".dawn", "build", "index.json")
	if b, err := os.ReadFile(p); err == nil {
		os.WriteFile(p, b[:len(b)*k/17], 0o644)
	}
}

func checkBytes(sim *projsim.Sim, id int, where string) *ev.Verdict {
	m := sim.M
	label := m.Label(id)
	twin, products := sim.CleanBuild(projsim.BuildReq{Label: label})
	if !twin.OK() {
		f := ev.Failf("scratch-fails", "%s: a from-scratch build of the same tree fails: %s %s", where, twin.LoadErr, twin.RunErr)
		return &f
	}
	for _, t := range m.Closure(id) {
		if m.Targets[t].Removed {
			continue
		}
		paths := []string{m.OutPath(t)}
		if m.Targets[t].Gen {
			paths = append(paths, m.GenPath(t))
		}
		for _, p := range paths {
			got, ok := sim.ReadFile(p)
			if want := products[p]; !ok || got != want {
				f := ev.Failf("not-converged", "%s: %s of %s differs from an uninterrupted from-scratch build (exists=%v)", where, p, m.Label(t), ok)
				return &f
			}
		}
	}
	return nil
}

// recover checks the oracle on a sim whose last build was faulty.
func recoverAndCheck(sim *projsim.Sim, id int, unfinished []string, after []projsim.Op, where string) *ev.Verdict {
	m := sim.M
	label := m.Label(id)
	root := sim.Env.Root()
	notState := func(rel string) bool { return rel == ".dawn/build" || strings.HasPrefix(rel, ".dawn/build/") }
	before := projsim.HashTree(root, notState)
	// (1) loads, with and without preferring the index
	for _, idx := range []bool{true, false} {
		r := sim.Build(projsim.BuildReq{Label: label, NoRun: true, PreferIndex: idx})
		if r.Panic != "" {
			f := ev.Failf("load-panics", "%s: loading after the fault panics (PreferIndex=%v): %s", where, idx, r.Panic)
			return &f
		}
		if r.LoadErr != "" {
			f := ev.Failf("state-not-loadable", "%s: the project does not load after the fault (PreferIndex=%v): %s", where, idx, r.LoadErr)
			return &f
		}
	}
	if projsim.HashTree(root, notState) != before {
		f := ev.Failf("load-changed-files", "%s: loading after the fault changed files outside .dawn/build", where)
		return &f
	}
	// (2)+(3) next build
	res := sim.Build(projsim.BuildReq{Label: label})
	if res.Panic != "" {
		f := ev.Failf("panic", "%s: the recovery build panics: %s", where, res.Panic)
		return &f
	}
	if !res.OK() {
		f := ev.Failf("recovery-build-fails", "%s: the build after the fault fails: load=%q run=%q", where, res.LoadErr, res.RunErr)
		return &f
	}
	executed := map[string]bool{}
	for _, l := range res.Executed() {
		executed[l] = true
	}
	inClosure := map[string]bool{}
	for _, t := range m.Closure(id) {
		inClosure[m.Label(t)] = true
	}
	for _, l := range unfinished {
		if inClosure[l] && !executed[l] {
			f := ev.Failf("unfinished-target-skipped", "%s: %s did not complete in the faulty build but the next build treats it as up to date (executed: %v)", where, l, keys(executed))
			return &f
		}
	}
	if f := checkBytes(sim, id, where+" recovery build"); f != nil {
		return f
	}
	// further operations, then the final build
	for _, op := range after {
		if op.IsBuild() {
			live := m.Live()
			sim.Build(projsim.BuildReq{Label: m.Label(live[op.T%len(live)]), Always: op.Always, DryRun: op.Dry})
		} else {
			sim.ApplyEdit(op)
		}
	}
	if m.Targets[id].Removed || m.MissingDep(id) {
		return nil
	}
	fin := sim.Build(projsim.BuildReq{Label: label})
	if fin.Panic != "" || !fin.OK() {
		f := ev.Failf("final-build-fails", "%s: the final build fails: %s %s %s", where, fin.LoadErr, fin.RunErr, fin.Panic)
		return &f
	}
	return checkBytes(sim, id, where+" final build")
}

func keys(m map[string]bool) []string {
	var out []string
	for k := range m {
		out = append(out, k)
	}
	sort.Strings(out)
	return out
}

func unfinishedOf(log []projsim.LogEntry) []string {
	st := map[string]int{}
	for _, e := range log {
		if e.Phase == "start" {
			st[e.Label]++
		} else if e.Phase == "end" {
			st[e.Label]--
		}
	}
	var out []string
	for l, n := range st {
		if n > 0 {
			out = append(out, l)
		}
	}
	sort.Strings(out)
	return out
}

func exec(c Case) (v ev.Verdict) {
	if c.M == nil || len(c.M.Targets) == 0 {
		return ev.Verdict{Skip: "empty"}
	}
	base, err := projsim.NewSim(c.M.Clone())
	if err != nil {
		return ev.Verdict{Skip: "mkdtemp"}
	}
	defer base.Close()
	m := base.M
	live := m.Live()
	id := live[len(live)-1]
	label := m.Label(id)
	first := base.Build(projsim.BuildReq{Label: label})
	if !first.OK() {
		return ev.Verdict{Skip: "initial-build-failed"}
	}
	semantic := false
	for _, e := range c.Edits {
		if info := base.ApplyEdit(e); info.Semantic {
			semantic = true
		}
	}
	if !semantic {
		v.Classes = append(v.Classes, "no-pending-change")
	}
	if m.Targets[id].Removed || m.MissingDep(id) {
		return ev.Verdict{Skip: "target-gone"}
	}

	// ---- variant A: a body fails -------------------------------------------------------------
	if c.FailT >= 0 && c.Only == nil {
		sim, err := base.CloneFull()
		if err != nil {
			return ev.Verdict{Skip: "clone"}
		}
		cl := m.Closure(id)
		ft := cl[c.FailT%len(cl)]
		sim.SetFail(m.Targets[ft].Name(), true)
		res := sim.Build(projsim.BuildReq{Label: label, Always: c.Forced})
		sim.ClearFails()
		where := fmt.Sprintf("body of %s fails in build of %s (forced=%v)", m.Label(ft), label, c.Forced)
		if res.Panic != "" {
			sim.Close()
			return ev.Failf("panic", "%s: panic %s", where, res.Panic)
		}
		var unfinished []string
		failed := false
		for _, e := range res.Events {
			if e.Kind == "Failed" && strings.Contains(e.Text, "injected failure") {
				unfinished = append(unfinished, e.Label)
				failed = true
			}
		}
		if failed && !c.Forced {
			// the same on ONE loaded project (the REPL's run()): the run fails, the cause is removed, the same
			// Project runs again - the failed target must execute and the outputs must converge
			if sp, err := base.CloneFull(); err == nil {
				sp.SetFail(m.Targets[ft].Name(), true)
				r2 := sp.Build(projsim.BuildReq{Label: label, Steps: []projsim.Step{{Kind: "unfail"}, {Kind: "run"}}})
				sp.ClearFails()
				w2 := where + ", then the same loaded project runs again after the cause is removed"
				var f *ev.Verdict
				switch {
				case r2.Panic != "":
					fv := ev.Failf("panic", "%s: panic %s", w2, r2.Panic)
					f = &fv
				case len(r2.Steps) == 2 && r2.Steps[1].Err != "":
					fv := ev.Failf("same-project-rerun-fails", "%s: the second run fails: %s", w2, r2.Steps[1].Err)
					f = &fv
				case r2.RunErr != "":
					f = checkBytes(sp, id, w2)
				}
				sp.Close()
				v.Classes = append(v.Classes, "body-failure-same-project")
				if f != nil {
					return *f
				}
			}
		}
		if failed {
			v.Classes = append(v.Classes, "body-failure")
			if len(m.Dependents(ft)) > 1 {
				v.NonTrivial = true
			}
			if f := recoverAndCheck(sim, id, unfinished, c.After, where); f != nil {
				sim.Close()
				return *f
			}
		} else {
			v.Classes = append(v.Classes, "armed-body-did-not-run")
		}
		sim.Close()
	}

	// ---- variant B: the process dies at a crash point --------------------------------------------
	counter, err := base.CloneFull()
	if err != nil {
		return ev.Verdict{Skip: "clone"}
	}
	faulty := func(req projsim.BuildReq) projsim.BuildReq {
		if c.DryFirst && !c.Forced {
			req.DryRun = true
			req.Steps = []projsim.Step{{Kind: "run", Real: true}}
		}
		return req
	}
	cnt := counter.ChildBuild(faulty(projsim.BuildReq{Label: label, CountHits: true, Always: c.Forced, SaveJitter: true}))
	counter.Close()
	if cnt.ExitCode != 0 || !cnt.OK() {
		return ev.Failf("counting-run-failed", "the un-faulted counting run of %s failed: exit=%d load=%q run=%q %s", label, cnt.ExitCode, cnt.LoadErr, cnt.RunErr, cnt.Stderr)
	}
	// hits -> (site,label,n)
	var hits []Hit
	occ := map[string]int{}
	for _, h := range cnt.Hits {
		occ[h]++
		f := strings.SplitN(h, " ", 2)
		hits = append(hits, Hit{Site: f[0], Label: f[1], N: occ[h]})
	}
	if len(hits) == 0 {
		return ev.Verdict{Skip: "no-crash-points"}
	}
	// death in the middle of the in-place index write: prefixes of the complete file
	for _, h := range append([]Hit{}, hits...) {
		if h.Site != "index.afterEncode" {
			continue
		}
		tears := []int{2, 6, 11, 15}
		if !run.Quick() {
			tears = []int{1, 2, 3, 4, 5, 6, 7, 8, 9, 10, 11, 12, 13, 14, 15, 16}
		}
		for _, k := range tears {
			hits = append(hits, Hit{Site: h.Site, Label: h.Label, N: h.N, Tear: k})
		}
	}
	var chosen []int
	switch {
	case c.Only != nil:
		for i, h := range hits {
			if h == *c.Only {
				chosen = []int{i}
			}
		}
		if chosen == nil {
			// label-free match (schedule differences)
			chosen = []int{0}
		}
	case !run.Quick():
		for i := range hits {
			chosen = append(chosen, i)
		}
	default:
		seen := map[int]bool{}
		for _, s := range c.Hits {
			i := s % len(hits)
			if !seen[i] {
				seen[i] = true
				chosen = append(chosen, i)
			}
		}
	}
	run.Class("crash-points-listed", len(hits))
	for _, hi := range chosen {
		h := hits[hi]
		sim, err := base.CloneFull()
		if err != nil {
			return ev.Verdict{Skip: "clone"}
		}
		res := sim.ChildBuild(faulty(projsim.BuildReq{Label: label, CrashSite: h.Site, CrashLabel: h.Label, CrashHit: h.N, Always: c.Forced, SaveJitter: true}))
		if c.DryFirst && !c.Forced {
			run.Class("dry-run-then-real-run-on-one-project", 1)
		}
		where := fmt.Sprintf("crash at %s(%s)#%d in build of %s (forced=%v)", h.Site, h.Label, h.N, label, c.Forced)
		sub := Case{M: c.M, Edits: c.Edits, FailT: -1, After: c.After, Only: &h, Forced: c.Forced, DryFirst: c.DryFirst}
		if !res.Crashed {
			// the point was not reached in this run (schedule-dependent ordering): not a fault
			run.Class("crash-point-not-reached", 1)
			sim.Close()
			continue
		}
		run.Class("site:"+h.Site, 1)
		if h.Tear > 0 {
			tearIndex(sim, h.Tear)
			where += fmt.Sprintf(", index.json cut to %d/17 of its bytes", h.Tear)
			run.Class("torn-index", 1)
		}
		nontrivial := hi > 0 && hi < len(hits)-1
		if nontrivial {
			for _, t := range m.Live() {
				if m.Label(t) == h.Label && len(m.Dependents(t)) > 1 {
					nontrivial = true
				}
			}
		}
		f := recoverAndCheck(sim, id, unfinishedOf(res.Log), c.After, where)
		sim.Close()
		sv := ev.Verdict{NonTrivial: nontrivial, Classes: []string{"crash"}}
		if f != nil {
			sv.Fail, sv.Sig = f.Fail, f.Sig
			if c.Only == nil {
				run.Record(sub, sv)
				// report the single crash point as the failing case
				v.Fail, v.Sig = f.Fail, f.Sig
				return v
			}
			return sv
		}
		if c.Only == nil {
			run.Record(sub, sv)
		} else {
			return sv
		}
	}
	v.Classes = append(v.Classes, "scenario")
	_ = os.Remove
	_ = filepath.Join
	return v
}

func gen(t *rapid.T) Case {
	m := projsim.GenModel(t, 7, false)
	c := Case{M: m, FailT: -1}
	ne := rapid.IntRange(1, 3).Draw(t, "nedits")
	for i := 0; i < ne; i++ {
		c.Edits = append(c.Edits, projsim.GenEdit(t, projsim.SemanticEdits()))
	}
	if rapid.IntRange(0, 2).Draw(t, "failvariant") == 2 {
		c.FailT = rapid.IntRange(0, 7).Draw(t, "failt")
	}
	c.Hits = rapid.SliceOfN(rapid.IntRange(0, 199), 4, 6).Draw(t, "hits")
	c.Forced = rapid.IntRange(0, 3).Draw(t, "forced") == 3
	c.DryFirst = rapid.IntRange(0, 4).Draw(t, "dryfirst") == 4
	if c.DryFirst && !c.Forced {
		// a reason to run that leaves no trace in the records: a generated file is gone
		gd := projsim.Op{Kind: "gen-del", T: rapid.IntRange(0, 11).Draw(t, "gendel")}
		if rapid.Bool().Draw(t, "onlygendel") {
			c.Edits = []projsim.Op{gd} // nothing else changed: the old records still match
		} else {
			c.Edits = append(c.Edits, gd)
		}
	}
	if c.Forced && rapid.Bool().Draw(t, "noedits") {
		c.Edits = nil // a forced build of an unchanged tree: the option is the only reason to run
	}
	na := rapid.IntRange(0, 3).Draw(t, "nafter")
	for i := 0; i < na; i++ {
		if rapid.Bool().Draw(t, "afteredit") {
			c.After = append(c.After, projsim.GenEdit(t, projsim.SemanticEdits()))
		} else {
			c.After = append(c.After, projsim.GenBuild(t, false, true, false))
		}
	}
	return c
}

func TestC03(t *testing.T) {
	ev.Explore(run, t, "fault", run.N(30, 100), gen, exec)
	if !run.Quick() {
		run.SetExhaustive(true)
		run.Extra("exhaustive_scope", "every crash-point occurrence of the faulty build of each generated scenario")
	}
}
