package c04

import (
	"fmt"
	"testing"
	"time"

	"github.com/pgavlin/dawn/verif/cosched"
	"github.com/pgavlin/dawn/verif/ev"
	"github.com/pgavlin/dawn/verif/projsim"
	"github.com/pgavlin/dawn/verif/rungraph"
	"pgregory.net/rapid"
)

var run *ev.Run

func TestMain(m *testing.M) {
	projsim.MaybeChild()
	run = ev.Start("C04", "exploration",
		"rapid draws an acyclic dependency graph of 2-14 targets (diamonds, shared sub-graphs, chains, fans; nodes may fail in their body or be unknown to "+
			"LoadTarget; a node may split its dependencies over two requests and repeat a label) and a schedule: a choice vector for the cooperative token "+
			"scheduler that owns every scheduling point of runner.go (uniform choice at every point, or run-until-block with <=3 generated preemptions), or "+
			"a delay table for free-running parallel execution; plus free-running fan-in graphs whose 2-8 dependents are aligned by a barrier right before "+
			"they request the same 1-4 fresh targets. The real runner.Run executes the graph with harness Targets. Oracle: LoadTarget and Evaluate "+
			"at most once per label; when a dependency request returns every requested target has finished; each Result carries that target's actual error "+
			"(identity) and the object LoadTarget returned; Run returns the root's outcome; no target is still executing when Run returns; no confirmed "+
			"deadlock. Project level: generated dawn projects whose dependency labels use every spelling (relative, absolute, target value, target://pkg:name) are built by the real Load/Run; per label at most one body start and one completion event per build, and a body starts after the bodies of its dependencies ended. Non-trivial = some target was requested by a second dependent while it had not finished. Distinct by case JSON.",
		"cooperative scheduling cannot interleave inside windows without a scheduling point; jitter mode and -race cover those only probabilistically",
		"a watchdog hit without a confirmed all-parked dump is inconclusive, not a violation",
	)
	ev.Main(m, run)
}

func exec(c rungraph.Case) (v ev.Verdict) {
	if c.HasCycle() {
		return ev.Verdict{Skip: "cyclic"}
	}
	o := rungraph.Execute(&c, 30*time.Second)
	v.Classes = append(v.Classes, "mode:"+c.Pol.Mode)
	if o.Res.TimedOut {
		fmt.Printf("INCONCLUSIVE %+v\n%s\n", c, o.Res.Report)
		return ev.Verdict{Skip: "watchdog-inconclusive"}
	}
	if o.Res.Livelock {
		return ev.Failf("livelock", "%s", o.Res.Report)
	}
	if o.Res.Deadlock {
		return ev.Failf("deadlock", "deadlock on an acyclic graph: %s", o.Res.Report)
	}
	if o.Panic != nil {
		return ev.Failf("panic", "runner.Run panicked: %v", o.Panic)
	}
	for i := range c.Nodes {
		if o.Loads[i] > 1 {
			return ev.Failf("loaded-twice", "target n%d was loaded %d times", i, o.Loads[i])
		}
		if o.Evals[i] > 1 {
			return ev.Failf("evaluated-twice", "target n%d was evaluated %d times", i, o.Evals[i])
		}
	}
	if len(o.CycleErrs) > 0 {
		return ev.Failf("cycle-error-on-dag", "cyclic-dependency error on an acyclic graph: %v", o.CycleErrs)
	}
	if o.UnfinishedAtRet != "" {
		return ev.Failf("continued-before-dependency-finished", "%s", o.UnfinishedAtRet)
	}
	if o.ResultMismatch != "" {
		return ev.Failf("wrong-result", "%s", o.ResultMismatch)
	}
	if !o.RunDone {
		return ev.Failf("run-did-not-return", "all goroutines ended but Run did not return")
	}
	if o.RunErr != o.Outcome[c.Root] {
		return ev.Failf("wrong-run-result", "Run returned %v, the requested target's outcome is %v", o.RunErr, o.Outcome[c.Root])
	}
	if !o.Finished[c.Root] {
		return ev.Failf("wrong-run-result", "Run returned before the requested target finished")
	}
	if o.ActiveAtRunReturn != 0 {
		return ev.Failf("still-running-after-run", "%d targets were still executing when Run returned", o.ActiveAtRunReturn)
	}
	reach := c.Reachable()
	for i := range c.Nodes {
		if o.Started[i] && !reach[i] {
			return ev.Failf("unreachable-target-ran", "target n%d is not reachable from the root but was loaded", i)
		}
	}
	if o.SharedUnfinished > 0 {
		v.NonTrivial = true
		v.Classes = append(v.Classes, "shared-unfinished")
	}
	if o.MaxConcurrentET >= 2 {
		v.Classes = append(v.Classes, "concurrent-requests")
	}
	v.Classes = append(v.Classes, fmt.Sprintf("depth:%d", min(c.Depth(), 5)))
	return v
}

func gen(t *rapid.T) rungraph.Case {
	jit := 2
	nodes := rungraph.GenDAG(t, 14, rapid.IntRange(0, 3).Draw(t, "wide") == 3)
	// sometimes repeat a label inside one request
	for i := range nodes {
		for j := range nodes[i].Reqs {
			if len(nodes[i].Reqs[j]) > 0 && rapid.IntRange(0, 9).Draw(t, "dup") == 7 {
				nodes[i].Reqs[j] = append(nodes[i].Reqs[j], nodes[i].Reqs[j][0])
			}
		}
	}
	return rungraph.Case{Nodes: nodes, Root: 0, Pol: rungraph.GenPolicy(t, jit)}
}

// TestC04Aligned: free-running fan-in with the dependents aligned by a barrier right before they
// request the same fresh targets - for races in windows of the runner that contain no scheduling
// point (e.g. a lookup followed by an insert).
func TestC04Aligned(t *testing.T) {
	iters := run.N(1500, 25000)
	i := -1
	ev.Enumerate(run, t, "aligned-fan-in", func() (rungraph.Case, bool) {
		i++
		if i >= iters {
			return rungraph.Case{}, false
		}
		mids := 2 + i%7   // 2..8 dependents
		leaves := 1 + i%4 // requesting the same 1..4 fresh targets
		nodes := make([]rungraph.Node, 1+mids+leaves)
		var midIdx, leafIdx []int
		for m := 0; m < mids; m++ {
			midIdx = append(midIdx, 1+m)
		}
		for l := 0; l < leaves; l++ {
			leafIdx = append(leafIdx, 1+mids+l)
		}
		nodes[0].Reqs = [][]int{midIdx}
		for _, m := range midIdx {
			nodes[m].Reqs = [][]int{leafIdx}
			nodes[m].Barrier = true
		}
		return rungraph.Case{Nodes: nodes, Root: 0, Pol: cosched.Policy{Mode: "jitter", Delays: []int{i % 3}}}, true
	}, exec)
}

func TestC04(t *testing.T) {
	ev.Explore(run, t, "dag", run.N(2500, 40000), gen, exec)
}

// ---- wide requests -------------------------------------------------------------------------------
//
// The statement has no bound on the number of dependencies of one request: a target that asks for hundreds
// of targets at once, some of which fail in their body or cannot be loaded, is handed every one's actual
// outcome and continues only when all of them have finished.

type WideCase struct {
	N       int    `json:"n"`                 // dependencies of the root's one request
	Fail    []int  `json:"fail,omitempty"`    // positions whose target fails in its body
	Unknown []int  `json:"unknown,omitempty"` // positions whose target cannot be loaded
	Second  int    `json:"second,omitempty"`  // that many leaves have a dependency of their own (a shared last node)
	Mode    string `json:"mode"`
}

func (w WideCase) graph() rungraph.Case {
	nodes := make([]rungraph.Node, w.N+2)
	deps := make([]int, w.N)
	for i := range deps {
		deps[i] = i + 1
	}
	nodes[0] = rungraph.Node{Reqs: [][]int{deps}, Tolerant: true}
	for _, f := range w.Fail {
		nodes[1+f%w.N].Fail = true
	}
	for _, u := range w.Unknown {
		nodes[1+u%w.N] = rungraph.Node{Unknown: true}
	}
	for k := 0; k < w.Second; k++ {
		i := 1 + (k*37+5)%w.N
		if !nodes[i].Unknown {
			nodes[i].Reqs = [][]int{{w.N + 1}}
		}
	}
	return rungraph.Case{Nodes: nodes, Root: 0, Pol: cosched.Policy{Mode: w.Mode, MaxSteps: 40*w.N*w.N + 400000}}
}

func TestC04Wide(t *testing.T) {
	ev.Explore(run, t, "wide", run.N(25, 400), func(rt *rapid.T) WideCase {
		w := WideCase{N: rapid.SampledFrom([]int{129, 130, 200, 257, 300, 513, 700, 1025, 65, 33}).Draw(rt, "n"),
			Mode: rapid.SampledFrom([]string{"jitter", "jitter", "random"}).Draw(rt, "mode"), Second: rapid.IntRange(0, 3).Draw(rt, "second")}
		pos := func(label string) int {
			// early, late or anywhere in the request
			switch rapid.IntRange(0, 2).Draw(rt, label+"where") {
			case 0:
				return rapid.IntRange(0, 3).Draw(rt, label)
			case 1:
				return w.N - 1 - rapid.IntRange(0, 3).Draw(rt, label)
			}
			return rapid.IntRange(0, w.N-1).Draw(rt, label)
		}
		for k, n := 0, rapid.IntRange(0, 2).Draw(rt, "nfail"); k < n; k++ {
			w.Fail = append(w.Fail, pos("fail"))
		}
		for k, n := 0, rapid.IntRange(0, 2).Draw(rt, "nunknown"); k < n; k++ {
			w.Unknown = append(w.Unknown, pos("unknown"))
		}
		return w
	}, func(w WideCase) ev.Verdict {
		v := exec(w.graph())
		v.Classes = append(v.Classes, fmt.Sprintf("wide:%d", w.N))
		if len(w.Fail)+len(w.Unknown) > 0 {
			v.NonTrivial = true
			v.Classes = append(v.Classes, "wide-with-failure")
		}
		return v
	})
}
