package c04

import (
	"fmt"
	"testing"

	"github.com/pgavlin/dawn/verif/ev"
	"github.com/pgavlin/dawn/verif/projsim"
	"pgregory.net/rapid"
)

// The same property one level up: whole generated projects are built through the real
// Load/Run (free-running), with dependency labels spelled in every form the label syntax offers -
// relative, absolute, as a target value and with the kind spelled out - so that one target can be
// requested under several spellings in one build.

type ProjCase struct {
	M      *projsim.Model `json:"m"`
	Builds []projsim.Op   `json:"builds"`
}

func execProject(c ProjCase) (v ev.Verdict) {
	if c.M == nil || len(c.M.Targets) == 0 {
		return ev.Verdict{Skip: "empty"}
	}
	sim, err := projsim.NewSim(c.M.Clone())
	if err != nil {
		return ev.Verdict{Skip: "mkdtemp"}
	}
	defer sim.Close()
	m := sim.M
	kinded := false
	for _, t := range m.Targets {
		kinded = kinded || len(t.KindDeps) > 0
	}
	for n, op := range c.Builds {
		id := m.BuildTarget(op)
		if id < 0 {
			continue
		}
		// in a child process: a panic on a runner goroutine must not take the harness down
		res := sim.ChildBuild(projsim.BuildReq{Label: m.Label(id), Always: op.Always})
		where := fmt.Sprintf("build %d (%s always=%v)", n, m.Label(id), op.Always)
		if res.ExitCode != 0 {
			se := res.Stderr
			if len(se) > 300 {
				se = se[:300]
			}
			return ev.Failf("build-crash", "%s: the build process died (status %d): %s", where, res.ExitCode, se)
		}
		if res.Panic != "" {
			return ev.Failf("panic", "%s: panic: %s", where, res.Panic)
		}
		if res.LoadErr != "" {
			v.Classes = append(v.Classes, "load-error")
			continue
		}
		starts, ends := map[string]int{}, map[string]int{}
		pos := map[string]int{}
		for i, e := range res.Log {
			switch e.Phase {
			case "start":
				starts[e.Label]++
				pos["s"+e.Label] = i
			case "end":
				ends[e.Label]++
				pos["e"+e.Label] = i
			}
		}
		for l, k := range starts {
			if k > 1 {
				return ev.Failf("evaluated-twice", "%s: the body of %s ran %d times in one build", where, l, k)
			}
		}
		terminal := map[string]int{}
		for _, e := range res.Events[res.LoadIndex:] {
			switch e.Kind {
			case "UpToDate", "Succeeded", "Failed":
				terminal[e.Label]++
			}
		}
		for l, k := range terminal {
			if k > 1 {
				return ev.Failf("evaluated-twice", "%s: %s completed %d times in one build (events)", where, l, k)
			}
		}
		// a body starts only after the bodies of all its dependencies that ran have ended
		for _, t := range m.Closure(id) {
			tl := m.Label(t)
			if starts[tl] == 0 {
				continue
			}
			for _, d := range m.DirectDeps(t) {
				dl := m.Label(d)
				if starts[dl] > 0 && (ends[dl] == 0 || pos["e"+dl] > pos["s"+tl]) {
					return ev.Failf("dependent-before-dependency", "%s: %s started before its dependency %s had finished", where, tl, dl)
				}
			}
		}
		if res.OK() {
			v.Classes = append(v.Classes, "build-ok")
			if len(starts) > 2 {
				v.NonTrivial = true
			}
		} else {
			v.Classes = append(v.Classes, "build-fails")
		}
	}
	if kinded {
		v.Classes = append(v.Classes, "kind-spelled-dependency")
	}
	return v
}

func genProject(t *rapid.T) ProjCase {
	m := projsim.GenModel(t, 8, false)
	// spell some dependency labels with their kind
	for i := range m.Targets {
		tg := &m.Targets[i]
		for _, d := range tg.Deps {
			if rapid.IntRange(0, 4).Draw(t, "kinded") == 4 {
				tg.KindDeps = append(tg.KindDeps, d)
			}
		}
	}
	c := ProjCase{M: m}
	c.Builds = append(c.Builds, projsim.Op{Kind: "build", T: len(m.Targets) - 1})
	n := rapid.IntRange(1, 3).Draw(t, "nbuilds")
	for i := 0; i < n; i++ {
		c.Builds = append(c.Builds, projsim.Op{Kind: "build", T: rapid.IntRange(0, 11).Draw(t, "bt"), Always: rapid.Bool().Draw(t, "always")})
	}
	return c
}

func TestC04Project(t *testing.T) {
	ev.Explore(run, t, "project", run.N(60, 500), genProject, execProject)
}
