package c05

import (
	"fmt"
	"testing"
	"time"

	"github.com/pgavlin/dawn/verif/cosched"
	"github.com/pgavlin/dawn/verif/ev"
	"github.com/pgavlin/dawn/verif/rungraph"
	"pgregory.net/rapid"
)

var run *ev.Run

func TestMain(m *testing.M) {
	run = ev.Start("C05", "exploration",
		"rapid draws a directed graph of 1-10 targets (self-loops, 2..n-cycles, overlapping cycles, cycles that do not contain the requested target, "+
			"acyclic controls; one dependency request per target, as dawn's targets do) and a schedule for the cooperative token scheduler that owns every "+
			"scheduling point of runner.go (uniform choice, or run-until-block with <=3 preemptions) or a delay table for free-running execution; the "+
			"parallelism limit is the shard's CPU affinity (1,2,3,4,16). A fixed catalogue of tiny graphs is additionally run under EVERY schedule with "+
			"<=2 preemptions, plain or parking the preempted goroutine until nothing else can run (bounded exhaustive), and under generated PCT priority schedules (random priorities, 0-2 priority drops). Oracle: the run finishes (the scheduler never confirms an all-parked state; stragglers after Run "+
			"returns are driven to completion); reachable cycle => Run fails and some target receives a CyclicDependencyError; acyclic => nobody does. "+
			"Non-trivial = cyclic reachable graph with >=2 goroutines inside EvaluateTargets at once, or an acyclic graph of depth >=3. Distinct by case JSON.",
		"termination is decided on generated graphs and schedules only; a watchdog hit without a confirmed all-parked dump is inconclusive",
		"graphs are kept small enough (<= 4096 root-to-leaf paths) for the runner's un-memoised cycle walk",
	)
	ev.Main(m, run)
}

func exec(c rungraph.Case) (v ev.Verdict) {
	if c.Paths() > 4096 {
		return ev.Verdict{Skip: "too-many-paths"}
	}
	cyclic := c.HasCycle()
	// dependencies that name nothing: their load fails
	missing := false
	seen := map[int]bool{}
	var walk func(i int)
	walk = func(i int) {
		if i >= len(c.Nodes) || c.Nodes[i].Unknown {
			missing = true
			return
		}
		if seen[i] {
			return
		}
		seen[i] = true
		for _, d := range c.Deps(i) {
			walk(d)
		}
	}
	walk(c.Root)
	o := rungraph.Execute(&c, 30*time.Second)
	if missing {
		v.Classes = append(v.Classes, "missing-dependency")
	}
	v.Classes = append(v.Classes, "mode:"+c.Pol.Mode, fmt.Sprintf("limit:%d", o.Limit))
	if o.Res.TimedOut {
		fmt.Printf("INCONCLUSIVE %+v\n%s\n", c, o.Res.Report)
		return ev.Verdict{Skip: "watchdog-inconclusive"}
	}
	if o.Res.Livelock {
		return ev.Failf("livelock", "%s", o.Res.Report)
	}
	if o.Res.Deadlock {
		return ev.Failf("deadlock", "the build does not terminate (cyclic=%v, limit=%d): %s", cyclic, o.Limit, o.Res.Report)
	}
	if o.Panic != nil {
		return ev.Failf("panic", "runner.Run panicked: %v", o.Panic)
	}
	if !o.RunDone {
		return ev.Failf("run-did-not-return", "all goroutines ended but Run did not return")
	}
	if cyclic {
		v.Classes = append(v.Classes, "cyclic")
		if o.RunErr == nil {
			return ev.Failf("cycle-not-reported", "the reachable graph has a cycle but Run succeeded")
		}
		// (with a missing dependency next to the cycle a runner may stop before it ever visits the cycle: the build
		// fails, with the load error)
		if len(o.CycleErrs) == 0 && !missing {
			return ev.Failf("cycle-not-reported", "the reachable graph has a cycle, Run failed with %v, but no target received a CyclicDependencyError", o.RunErr)
		}
		if o.MaxConcurrentET >= 2 {
			v.NonTrivial = true
		}
	} else {
		v.Classes = append(v.Classes, "acyclic")
		if len(o.CycleErrs) > 0 {
			return ev.Failf("false-cycle", "acyclic graph but a cyclic-dependency error was reported: %v", o.CycleErrs)
		}
		if o.RunErr != nil && !missing {
			return ev.Failf("false-failure", "acyclic graph without failing targets but Run failed: %v", o.RunErr)
		}
		if c.Depth() >= 3 {
			v.NonTrivial = true
		}
	}
	return v
}

func gen(t *rapid.T) rungraph.Case {
	var nodes []rungraph.Node
	if rapid.IntRange(0, 3).Draw(t, "acyclic") == 3 {
		nodes = rungraph.GenDAG(t, 10, false)
		for i := range nodes {
			nodes[i].Fail, nodes[i].Unknown = false, false
			if len(nodes[i].Reqs) > 1 {
				nodes[i].Reqs = [][]int{append(append([]int{}, nodes[i].Reqs[0]...), nodes[i].Reqs[1]...)}
			}
		}
	} else {
		nodes = rungraph.GenDigraph(t, 10)
	}
	if rapid.IntRange(0, 2).Draw(t, "missing") == 2 {
		// 1-5 dependencies that name nothing: every failed load must give its slot back
		known := len(nodes)
		for k, n := 0, rapid.IntRange(1, 5).Draw(t, "nmissing"); k < n; k++ {
			nodes = append(nodes, rungraph.Node{Unknown: true})
			i := rapid.IntRange(0, known-1).Draw(t, "missingof")
			if len(nodes[i].Reqs) == 0 {
				nodes[i].Reqs = [][]int{{}}
			}
			pos := rapid.IntRange(0, len(nodes[i].Reqs[0])).Draw(t, "missingpos")
			r := append([]int{}, nodes[i].Reqs[0][:pos]...)
			r = append(r, known+k)
			nodes[i].Reqs[0] = append(r, nodes[i].Reqs[0][pos:]...)
		}
	}
	return rungraph.Case{Nodes: nodes, Root: 0, Pol: rungraph.GenPolicy(t, 2)}
}

// catalogue of tiny graphs for the bounded-exhaustive schedule enumeration
var catalogue = map[string][]rungraph.Node{
	"self-loop":      {{Reqs: [][]int{{0}}}},
	"two-cycle":      {{Reqs: [][]int{{1}}}, {Reqs: [][]int{{0}}}},
	"three-cycle":    {{Reqs: [][]int{{1}}}, {Reqs: [][]int{{2}}}, {Reqs: [][]int{{0}}}},
	"cycle-off-root": {{Reqs: [][]int{{1}}}, {Reqs: [][]int{{2}}}, {Reqs: [][]int{{1}}}},
	"fork-to-cycle":  {{Reqs: [][]int{{1, 2}}}, {Reqs: [][]int{{2}}}, {Reqs: [][]int{{1}}}},
	"diamond":        {{Reqs: [][]int{{1, 2}}}, {Reqs: [][]int{{3}}}, {Reqs: [][]int{{3}}}, {}},
	"fan":            {{Reqs: [][]int{{1, 2, 3}}}, {}, {}, {}},
	// acyclic; a target (1) walks the wait list of its dependency (3) while that one finishes and a third
	// target (2), which depends on the walker, publishes its own list: stale or recycled wait lists
	// must not let the walker see itself
	"walk-while-finishing": {{Reqs: [][]int{{1, 2}}}, {Reqs: [][]int{{3}}}, {Reqs: [][]int{{6, 1}}}, {Reqs: [][]int{{4, 5}}}, {}, {}, {}},
}

// fair: depth-first schedules pass the oldest goroutines over for longer than the default allows
func fair(lifo bool) int {
	if lifo {
		return 400
	}
	return 0
}

func TestC05(t *testing.T) {
	ev.Explore(run, t, "digraph", run.N(2500, 40000), gen, exec)
	// the catalogue graphs under priority schedules (PCT): every ordering bug of small depth has a
	// known lower bound on its probability per run
	// (the acyclic graphs with a finishing walk, where a stale wait edge shows as a false cycle, are drawn more often)
	names := []string{"walk-while-finishing", "walk-while-finishing", "walk-while-finishing", "diamond", "diamond", "fork-to-cycle", "cycle-off-root", "three-cycle", "fan", "two-cycle", "self-loop"}
	ev.Explore(run, t, "catalogue-pct", run.N(6000, 60000), func(rt *rapid.T) rungraph.Case {
		name := rapid.SampledFrom(names).Draw(rt, "graph")
		return rungraph.Case{Nodes: catalogue[name], Root: 0, Pol: rungraph.GenPCT(rt, 130)}
	}, exec)
}

// TestC05Exhaustive enumerates, for each catalogue graph, every run-until-block schedule
// with at most two preemptions (step numbers up to the length of the unpreempted run,
// every choice of the goroutine to switch to).
func TestC05Exhaustive(t *testing.T) {
	names := []string{"self-loop", "two-cycle", "three-cycle", "cycle-off-root", "fork-to-cycle", "diamond", "fan", "walk-while-finishing"}
	maxK := 1
	if !run.Quick() {
		maxK = 2
	}
	type sched struct {
		g       string
		preempt []int
		choices []int
		starve  bool
		park    []bool
		lifo    bool
	}
	var all []sched
	for _, name := range names {
		// length of the unpreempted run
		base := rungraph.Case{Nodes: catalogue[name], Root: 0, Pol: cosched.Policy{Mode: "preempt"}}
		o := rungraph.Execute(&base, 30*time.Second)
		steps := o.Sched.Steps + 4
		all = append(all, sched{g: name})
		for s1 := 1; s1 <= steps; s1++ {
			for c1 := 0; c1 < 3; c1++ {
				// the goroutine preempted at s1 stalls until nothing else can run
				all = append(all, sched{g: name, preempt: []int{s1}, choices: []int{c1}, starve: true})
				all = append(all, sched{g: name, preempt: []int{s1}, choices: []int{c1}})
				if maxK >= 2 {
					for s2 := s1 + 1; s2 <= steps+2; s2 += 1 {
						for c2 := 0; c2 < 2; c2++ {
							all = append(all, sched{g: name, preempt: []int{s1, s2}, choices: []int{c1, c2}})
						}
					}
				}
			}
		}
	}
	i := -1
	ev.Enumerate(run, t, "catalogue", func() (rungraph.Case, bool) {
		for {
			i++
			if i >= len(all) {
				return rungraph.Case{}, false
			}
			if i%run.NShards != run.Shard {
				continue
			}
			s := all[i]
			mode := "preempt"
			if s.starve {
				mode = "starve"
			}
			return rungraph.Case{Nodes: catalogue[s.g], Root: 0, Pol: cosched.Policy{Mode: mode, Preempt: s.preempt, Choices: s.choices, Park: s.park, Lifo: s.lifo, FairAge: fair(s.lifo)}}, true
		}
	}, exec)
	run.Extra("exhaustive_catalogue_schedules", len(all))
	run.Extra("exhaustive_max_preemptions", maxK)
	run.SetExhaustive(true)
}

// ---- large graphs --------------------------------------------------------------------------------
//
// The statement has no size bound: rings, chains and chains that end in a ring of hundreds to a few
// thousand targets, free-running on all CPUs of the shard.

type LargeCase struct {
	Shape string `json:"shape"` // "ring" | "chain" | "chain-into-ring" | "ring-with-tails"
	N     int    `json:"n"`
}

func (lc LargeCase) graph() rungraph.Case {
	n := lc.N
	nodes := make([]rungraph.Node, n)
	switch lc.Shape {
	case "ring":
		for i := range nodes {
			nodes[i].Reqs = [][]int{{(i + 1) % n}}
		}
	case "chain":
		for i := 0; i < n-1; i++ {
			nodes[i].Reqs = [][]int{{i + 1}}
		}
	case "chain-into-ring":
		// the first third is a chain, the rest a ring that the chain enters
		k := n / 3
		for i := range nodes {
			next := i + 1
			if next == n {
				next = k
			}
			nodes[i].Reqs = [][]int{{next}}
		}
	default: // ring-with-tails: every ring member also depends on a private leaf
		h := n / 2
		for i := 0; i < h; i++ {
			nodes[i].Reqs = [][]int{{(i + 1) % h, h + i}}
		}
	}
	return rungraph.Case{Nodes: nodes, Root: 0, Pol: cosched.Policy{Mode: "jitter", MaxSteps: 4*n*n + 400000}}
}

func TestC05Large(t *testing.T) {
	ev.Explore(run, t, "large", run.N(6, 60), func(rt *rapid.T) LargeCase {
		return LargeCase{Shape: rapid.SampledFrom([]string{"ring", "chain-into-ring", "chain", "ring-with-tails"}).Draw(rt, "shape"),
			N: rapid.SampledFrom([]int{1500, 300, 2600, 700, 1100}).Draw(rt, "n")}
	}, func(lc LargeCase) ev.Verdict {
		v := exec(lc.graph())
		v.Classes = append(v.Classes, fmt.Sprintf("large:%s", lc.Shape))
		return v
	})
}
