package c06

import (
	"fmt"
	"os"
	"path/filepath"
	"sort"
	"strings"
	"sync"
	"testing"
	"time"

	dawn "github.com/pgavlin/dawn"
	"github.com/pgavlin/dawn/diff"
	"github.com/pgavlin/dawn/label"
	"github.com/pgavlin/dawn/verif/cosched"
	"github.com/pgavlin/dawn/verif/ev"
	"github.com/pgavlin/dawn/verif/rungraph"
	"go.starlark.net/starlark"
	"pgregory.net/rapid"
)

var run *ev.Run

func TestMain(m *testing.M) {
	run = ev.Start("C06", "exploration",
		"rapid draws a load graph: 1-4 packages (//, //p1, //p2, //p1/q), each BUILD.dawn loading 0-3 of 0-5 helper modules in //lib, helpers loading "+
			"other helpers (chains, diamonds, helpers shared by several packages that themselves load further modules, self-loads, 2- and n-cycles), BUILD files "+
			"loading other packages' BUILD files and rings of 4-5 modules running through two packages, one "+
			"target and optionally one flag per package; and a schedule for the cooperative token scheduler over the scheduling points of package and "+
			"module loading (or a delay table for free-running loads). The real dawn.Load runs on generated files. Oracle: Load returns (no confirmed "+
			"deadlock, no livelock); ModuleLoading is reported at most once per module; acyclic graph => no error and exactly the expected targets and "+
			"flags; cyclic graph reachable from a BUILD file => Load fails and the error names a cyclic dependency. Non-trivial = a loader arrived at a "+
			"module that was registered but not yet loaded, or the graph has a cycle of length >= 3. Additionally a catalogue of five small graphs (cross-package "+
			"2- and 3-rings, shared helpers, acyclic controls) is loaded thousands of times free-running with the package loaders aligned by a barrier builtin "+
			"(and a generated skew), to reach races in windows without a scheduling point; deadlocks are confirmed from stack dumps. A catalogue of eight "+
			"small graphs (2-rings, BUILD files loading each other, 4- and 5-rings through two packages, acyclic controls) is run under EVERY "+
			"run-until-block schedule with one (quick) / two (thorough) preemptions. Reload histories: one Project is loaded and then reloaded (as watch mode does) after each of 1-5 rewrites of "+
			"its module files into another generated graph of the same shape (acyclic, cyclic, repaired); every reload is held to the same oracle as a fresh load of what is on disk. Distinct by case JSON.",
		"Starlark execution between two load statements is atomic under the cooperative scheduler",
	)
	ev.Main(m, run)
}

type Case struct {
	Pkgs    [][]int        `json:"pkgs"`    // per package: helper indexes its BUILD.dawn loads
	Flags   []bool         `json:"flags"`   // per package: defines a flag
	Helpers [][]int        `json:"helpers"` // per helper: helper indexes it loads
	Pol     cosched.Policy `json:"pol"`
	// Spell selects how load labels are written: 0 absolute (//lib:h0.dawn); otherwise the relative
	// spellings the label syntax offers are mixed in - from the root package "lib:h0.dawn", inside //lib
	// ":h1.dawn", from //p1 "q:BUILD.dawn" - so that one module is reached under several spellings
	Spell int `json:"spell,omitempty"`
	// Missing lists helpers whose file does not exist (a load label with a typo, a helper that was renamed)
	Missing []int `json:"missing,omitempty"`
}

func (c *Case) isMissing(h int) bool {
	for _, m := range c.Missing {
		if m == h {
			return true
		}
	}
	return false
}

// missingReachable: does some BUILD file load, directly or not, a helper whose file does not exist?
func (c *Case) missingReachable() bool {
	seen := map[int]bool{}
	found := false
	var walk func(n int)
	walk = func(n int) {
		if seen[n] || !c.valid(n) {
			return
		}
		seen[n] = true
		if n < 100 && c.isMissing(n) {
			found = true
			return
		}
		for _, x := range c.loadsOf(n) {
			walk(x)
		}
	}
	for p := range c.Pkgs {
		walk(100 + p)
	}
	return found
}

var pkgPaths = []string{"//", "//p1", "//p2", "//p1/q"}

type events struct {
	mu      sync.Mutex
	loading map[string]int
	order   []string
}

func (e *events) Print(*label.Label, string)                            {}
func (e *events) RequirementLoading(*label.Label, string)               {}
func (e *events) RequirementLoaded(*label.Label, string)                {}
func (e *events) RequirementLoadFailed(*label.Label, string, error)     {}
func (e *events) ModuleLoaded(*label.Label)                             {}
func (e *events) ModuleLoadFailed(*label.Label, error)                  {}
func (e *events) LoadDone(error)                                        {}
func (e *events) TargetUpToDate(*label.Label)                           {}
func (e *events) TargetEvaluating(*label.Label, string, diff.ValueDiff) {}
func (e *events) TargetFailed(*label.Label, error)                      {}
func (e *events) TargetSucceeded(*label.Label, bool)                    {}
func (e *events) RunDone(error)                                         {}
func (e *events) FileChanged(*label.Label)                              {}
func (e *events) ModuleLoading(l *label.Label) {
	e.mu.Lock()
	e.loading[l.String()]++
	e.order = append(e.order, l.String())
	e.mu.Unlock()
}

// Module references in Pkgs/Helpers: k >= 0 is helper k (//lib:hk.dawn); 100+j is the BUILD.dawn of
// package j loaded as a module.
func (c *Case) loadsOf(node int) []int {
	if node >= 100 {
		if node-100 < len(c.Pkgs) {
			return c.Pkgs[node-100]
		}
		return nil
	}
	if node < len(c.Helpers) {
		return c.Helpers[node]
	}
	return nil
}

func (c *Case) valid(node int) bool {
	if node >= 100 {
		return node-100 < len(c.Pkgs)
	}
	return node >= 0 && node < len(c.Helpers)
}

// cycle: is a load cycle reachable from some BUILD file, and the longest cycle length found.
func (c *Case) cycle() (bool, int) {
	color := map[int]int{}
	depth := map[int]int{}
	found, length := false, 0
	var visit func(n, d int)
	visit = func(n, d int) {
		if !c.valid(n) {
			return
		}
		switch color[n] {
		case 1:
			found = true
			if l := d - depth[n]; l > length {
				length = l
			}
			return
		case 2:
			return
		}
		color[n] = 1
		depth[n] = d
		for _, x := range c.loadsOf(n) {
			visit(x, d+1)
		}
		color[n] = 2
	}
	for p := range c.Pkgs {
		visit(100+p, 0)
	}
	return found, length
}

// loadStmt writes the load of module ref as seen from package from ("//lib" for helpers); k varies the
// spelling between the loads of one file.
func (c *Case) loadStmt(ref int, alias, from string, k int) string {
	lbl, sym := fmt.Sprintf("//lib:h%d.dawn", ref), fmt.Sprintf("H%d", ref)
	if ref >= 100 {
		lbl, sym = pkgPaths[ref-100]+":BUILD.dawn", "V"
	}
	if c.Spell > 0 && (c.Spell+k)%2 == 1 {
		pkg, name, _ := strings.Cut(lbl[2:], ":")
		switch {
		case from == "//"+pkg:
			lbl = ":" + name // same package
		case from == "//" && pkg != "":
			lbl = pkg + ":" + name // relative to the root package
		case from != "//" && strings.HasPrefix("//"+pkg, from+"/"):
			lbl = strings.TrimPrefix("//"+pkg, from+"/") + ":" + name // a sub-package
		}
	}
	return fmt.Sprintf("load(%q, %s=%q)\n", lbl, alias, sym)
}

func (c *Case) write(dir string) {
	os.WriteFile(filepath.Join(dir, "dawn.toml"), []byte("name = \"t\"\n"), 0o644)
	os.MkdirAll(filepath.Join(dir, "lib"), 0o755)
	for i, loads := range c.Helpers {
		if c.isMissing(i) {
			os.Remove(filepath.Join(dir, "lib", fmt.Sprintf("h%d.dawn", i)))
			continue
		}
		var b strings.Builder
		sum := "1"
		for k, h := range loads {
			if !c.valid(h) {
				continue
			}
			alias := fmt.Sprintf("X%d_%d", i, k)
			b.WriteString(c.loadStmt(h, alias, "//lib", i+k))
			sum += " + " + alias
		}
		fmt.Fprintf(&b, "H%d = %s\n", i, sum)
		os.WriteFile(filepath.Join(dir, "lib", fmt.Sprintf("h%d.dawn", i)), []byte(b.String()), 0o644)
	}
	for i, loads := range c.Pkgs {
		pd := filepath.Join(dir, filepath.FromSlash(pkgPaths[i][2:]))
		os.MkdirAll(pd, 0o755)
		var b strings.Builder
		uses := "0"
		for k, h := range loads {
			if !c.valid(h) || h == 100+i {
				continue
			}
			alias := fmt.Sprintf("Y%d", k)
			b.WriteString(c.loadStmt(h, alias, pkgPaths[i], i+k))
			uses += " + " + alias
		}
		if i < len(c.Flags) && c.Flags[i] {
			fmt.Fprintf(&b, "FL = parse_flag(\"fl\", default=\"d\")\n")
		}
		fmt.Fprintf(&b, "V = %s\ndef f():\n    return V\ntarget(name=\"t\", function=f)\n", uses)
		os.WriteFile(filepath.Join(pd, "BUILD.dawn"), []byte(b.String()), 0o644)
	}
}

func exec(c Case) (v ev.Verdict) {
	if len(c.Pkgs) == 0 || len(c.Pkgs) > len(pkgPaths) {
		return ev.Verdict{Skip: "bad-case"}
	}
	// "//p1/q" needs "//p1" to exist as a directory only; fine.
	dir, err := os.MkdirTemp("", "c06-")
	if err != nil {
		return ev.Verdict{Skip: "mkdtemp"}
	}
	defer os.RemoveAll(dir)
	c.write(dir)
	evs := &events{loading: map[string]int{}}

	var proj *dawn.Project
	var loadErr error
	var panicked any
	done := false
	s := cosched.New(c.Pol)
	s.Install()
	s.Go("load", func() {
		defer func() {
			if p := recover(); p != nil {
				panicked = p
			}
		}()
		proj, loadErr = dawn.Load(dir, &dawn.LoadOptions{Events: evs})
		done = true
	})
	res := s.Wait(30 * time.Second)
	cosched.Uninstall()

	cyclic, clen := c.cycle()
	v.Classes = append(v.Classes, "mode:"+c.Pol.Mode)
	if res.TimedOut {
		fmt.Printf("INCONCLUSIVE %+v\n%s\n", c, res.Report)
		return ev.Verdict{Skip: "watchdog-inconclusive"}
	}
	if res.Livelock {
		return ev.Failf("livelock", "Load does not terminate: %s", res.Report)
	}
	if res.Deadlock {
		return ev.Failf("deadlock", "Load hangs (cyclic=%v): %s", cyclic, res.Report)
	}
	if panicked != nil {
		return ev.Failf("panic", "Load panicked: %v", panicked)
	}
	if !done {
		return ev.Failf("load-did-not-return", "all goroutines ended but Load did not return")
	}
	evs.mu.Lock()
	defer evs.mu.Unlock()
	for l, n := range evs.loading {
		if n > 1 {
			return ev.Failf("module-loaded-twice", "module %s was executed %d times", l, n)
		}
	}
	// waiter-arrived-at-unfinished-module witness from the trace
	for _, e := range s.Trace() {
		if strings.Contains(e, "block module.wait") {
			v.Classes = append(v.Classes, "waited-for-module")
			v.NonTrivial = true
			break
		}
	}
	if c.missingReachable() {
		// Load has returned (that is what the statement asks of it here); a missing file cannot load
		v.Classes = append(v.Classes, "missing-module")
		v.NonTrivial = true
		if loadErr == nil {
			return ev.Failf("missing-module-loaded", "a reachable module file does not exist but Load succeeded")
		}
		return v
	}
	if cyclic {
		v.Classes = append(v.Classes, fmt.Sprintf("cyclic:%d", min(clen, 4)))
		if clen >= 3 {
			v.NonTrivial = true
		}
		if loadErr == nil {
			return ev.Failf("cycle-not-reported", "the load graph has a cycle but Load succeeded")
		}
		if le := strings.ToLower(loadErr.Error()); !strings.Contains(le, "cyclic") && !strings.Contains(le, "cycle") {
			return ev.Failf("cycle-not-reported", "the load graph has a cycle; Load failed with %q, which does not name a cyclic dependency", loadErr.Error())
		}
		return v
	}
	v.Classes = append(v.Classes, "acyclic")
	if loadErr != nil {
		return ev.Failf("acyclic-load-failed", "acyclic load graph but Load failed: %v", loadErr)
	}
	var want, got []string
	for i := range c.Pkgs {
		want = append(want, pkgPaths[i]+":t")
	}
	for _, t := range proj.Targets() {
		got = append(got, t.Label().String())
	}
	sort.Strings(want)
	sort.Strings(got)
	if strings.Join(want, " ") != strings.Join(got, " ") {
		return ev.Failf("wrong-targets", "targets after load: %v, want %v", got, want)
	}
	var wantF, gotF []string
	for i := range c.Pkgs {
		if i < len(c.Flags) && c.Flags[i] {
			comps := append(label.Split(pkgPaths[i])[1:], "fl")
			wantF = append(wantF, strings.Join(comps, "."))
		}
	}
	for _, f := range proj.Flags() {
		gotF = append(gotF, f.Name)
	}
	sort.Strings(wantF)
	sort.Strings(gotF)
	if strings.Join(wantF, " ") != strings.Join(gotF, " ") {
		return ev.Failf("wrong-flags", "flags after load: %v, want %v", gotF, wantF)
	}
	// every reachable helper was executed exactly once
	reach := map[int]bool{}
	var walk func(n int)
	walk = func(n int) {
		if reach[n] || !c.valid(n) {
			return
		}
		reach[n] = true
		for _, x := range c.loadsOf(n) {
			walk(x)
		}
	}
	for p := range c.Pkgs {
		walk(100 + p)
	}
	if len(evs.order) > len(reach) {
		return ev.Failf("module-loaded-twice", "%d module executions for %d reachable module files: %v", len(evs.order), len(reach), evs.order)
	}
	for n := range reach {
		l := fmt.Sprintf("module://lib:h%d.dawn", n)
		if n >= 100 {
			l = "module:" + pkgPaths[n-100] + ":BUILD.dawn"
		}
		if evs.loading[l] != 1 {
			return ev.Failf("module-not-loaded-once", "%s is reachable but was executed %d times (events: %v)", l, evs.loading[l], evs.loading)
		}
	}
	return v
}

func gen(t *rapid.T) Case {
	np := rapid.IntRange(1, 4).Draw(t, "npkgs")
	nh := rapid.IntRange(0, 5).Draw(t, "nhelpers")
	c := Case{}
	acyclic := rapid.IntRange(0, 2).Draw(t, "acyclic") != 2
	for h := 0; h < nh; h++ {
		var loads []int
		k := rapid.SampledFrom([]int{1, 0, 2, 1}).Draw(t, "hloads")
		for j := 0; j < k; j++ {
			var x int
			if acyclic {
				if h+1 > nh-1 {
					continue
				}
				x = rapid.IntRange(h+1, nh-1).Draw(t, "hdep")
			} else {
				x = rapid.IntRange(0, nh-1).Draw(t, "hdep")
			}
			dup := false
			for _, y := range loads {
				if y == x {
					dup = true
				}
			}
			if !dup {
				loads = append(loads, x)
			}
		}
		c.Helpers = append(c.Helpers, loads)
	}
	if nh >= 2 && rapid.IntRange(0, 5).Draw(t, "ring") == 4 {
		// a ring of 2..nh helpers (n-cycle), entered from anywhere
		k := rapid.IntRange(2, nh).Draw(t, "ringlen")
		for h := 0; h < k; h++ {
			c.Helpers[h] = append([]int{(h + 1) % k}, c.Helpers[h]...)
			if len(c.Helpers[h]) > 1 && c.Helpers[h][1] == c.Helpers[h][0] {
				c.Helpers[h] = c.Helpers[h][:1]
			}
		}
	}
	for p := 0; p < np; p++ {
		var loads []int
		if nh > 0 {
			k := rapid.SampledFrom([]int{1, 2, 0, 1, 3}).Draw(t, "ploads")
			for j := 0; j < k; j++ {
				x := rapid.IntRange(0, nh-1).Draw(t, "pdep")
				dup := false
				for _, y := range loads {
					if y == x {
						dup = true
					}
				}
				if !dup {
					loads = append(loads, x)
				}
			}
		}
		c.Pkgs = append(c.Pkgs, loads)
		c.Flags = append(c.Flags, rapid.IntRange(0, 2).Draw(t, "flag") == 2)
	}
	if nh > 0 && rapid.IntRange(0, 5).Draw(t, "missing") == 5 {
		c.Missing = append(c.Missing, rapid.IntRange(0, nh-1).Draw(t, "missingh"))
	}
	// BUILD files may also load each other (and helpers may load a BUILD file): the module of a
	// package is then registered by whichever loader goroutine gets there first
	for p := 0; p < np; p++ {
		if np > 1 && rapid.IntRange(0, 3).Draw(t, "pkgload") == 3 {
			q := rapid.IntRange(0, np-1).Draw(t, "pkgdep")
			if q != p && (!acyclic || q > p) {
				c.Pkgs[p] = append(c.Pkgs[p], 100+q)
			}
		}
	}
	if !acyclic && nh > 0 && np > 1 && rapid.IntRange(0, 3).Draw(t, "hpkg") == 3 {
		h := rapid.IntRange(0, nh-1).Draw(t, "hfrom")
		c.Helpers[h] = append(c.Helpers[h], 100+rapid.IntRange(0, np-1).Draw(t, "hto"))
	}
	if np >= 2 && nh >= 2 && rapid.IntRange(0, 7).Draw(t, "longring") == 6 {
		// a ring of four or more modules through two packages: p0 -> p1 -> h0 -> h1 [-> h2] -> p0
		c.Pkgs[0] = append([]int{101}, c.Pkgs[0]...)
		c.Pkgs[1] = append([]int{0}, c.Pkgs[1]...)
		last := 1
		if nh >= 3 && rapid.Bool().Draw(t, "ring5") {
			last = 2
		}
		for h := 0; h < last; h++ {
			c.Helpers[h] = append([]int{h + 1}, c.Helpers[h]...)
		}
		c.Helpers[last] = append([]int{100}, c.Helpers[last]...)
	}
	c.Pol = rungraph.GenPolicy(t, 3)
	c.Spell = rapid.SampledFrom([]int{0, 1, 2, 0}).Draw(t, "spell")
	return c
}

// ---- aligned free-running loads ---------------------------------------------------------------
//
// Races in windows that contain no scheduling point (e.g. "look for a cycle, then record my wait
// edge") only show when the package loaders really run in parallel and arrive together. A barrier
// builtin called by every BUILD file right before its first load() aligns the loader goroutines to
// within a few hundred nanoseconds; the load then runs free. The cosched handler is installed in
// jitter mode only to track goroutines and to confirm deadlocks from stack dumps.

type AlignedCase struct {
	Graph int `json:"graph"` // index into alignedGraphs
	Iter  int `json:"iter"`
	Spin  int `json:"spin"` // extra spin iterations for package 0 after the barrier (skews arrival)
}

var alignedGraphs = []Case{
	// two packages whose helpers load each other: //:BUILD -> h0 -> h1 -> h0, //p1:BUILD -> h1
	{Pkgs: [][]int{{0}, {1}}, Helpers: [][]int{{1}, {0}}},
	// three packages entering a 3-ring at different points
	{Pkgs: [][]int{{0}, {1}, {2}}, Helpers: [][]int{{1}, {2}, {0}}},
	// two packages, ring of two plus a shared acyclic helper
	{Pkgs: [][]int{{0, 2}, {1, 2}}, Helpers: [][]int{{1}, {0}, {}}},
	// acyclic controls: shared chain entered at two points, diamond
	{Pkgs: [][]int{{0}, {1}}, Helpers: [][]int{{1}, {2}, {}}},
	{Pkgs: [][]int{{0, 1}, {1, 0}, {2}}, Helpers: [][]int{{2}, {2}, {}}},
}

type barrier struct {
	mu      sync.Mutex
	n, want int
	spin    int
}

func (b *barrier) wait(pkg int) {
	b.mu.Lock()
	b.n++
	b.mu.Unlock()
	deadline := time.Now().Add(2 * time.Millisecond)
	for {
		b.mu.Lock()
		ok := b.n >= b.want
		b.mu.Unlock()
		if ok || time.Now().After(deadline) {
			break
		}
	}
	if pkg == 0 {
		for i := 0; i < b.spin; i++ {
			_ = i
		}
	}
}

func execAligned(ac AlignedCase) (v ev.Verdict) {
	c := alignedGraphs[ac.Graph%len(alignedGraphs)]
	c.Flags = make([]bool, len(c.Pkgs))
	dir, err := os.MkdirTemp("", "c06a-")
	if err != nil {
		return ev.Verdict{Skip: "mkdtemp"}
	}
	defer os.RemoveAll(dir)
	c.write(dir)
	// prepend the barrier call to every BUILD file
	for i := range c.Pkgs {
		p := filepath.Join(dir, filepath.FromSlash(pkgPaths[i][2:]), "BUILD.dawn")
		data, _ := os.ReadFile(p)
		os.WriteFile(p, append([]byte(fmt.Sprintf("vb_wait(%d)\n", i)), data...), 0o644)
	}
	// ... and to every helper that loads another helper, right before its load statements: the
	// helpers of a ring are then executed by different loader goroutines that reach their
	// (mutual) load at the same moment
	nb := 0
	for i, loads := range c.Helpers {
		if len(loads) == 0 {
			continue
		}
		nb++
		p := filepath.Join(dir, "lib", fmt.Sprintf("h%d.dawn", i))
		data, _ := os.ReadFile(p)
		os.WriteFile(p, append([]byte(fmt.Sprintf("vh_wait(%d)\n", i)), data...), 0o644)
	}
	b := &barrier{want: len(c.Pkgs), spin: ac.Spin}
	hb := &barrier{want: nb, spin: ac.Spin}
	hbuiltin := starlark.NewBuiltin("vh_wait", func(_ *starlark.Thread, _ *starlark.Builtin, args starlark.Tuple, _ []starlark.Tuple) (starlark.Value, error) {
		n, _ := starlark.AsInt32(args[0])
		hb.wait(n)
		return starlark.None, nil
	})
	builtin := starlark.NewBuiltin("vb_wait", func(_ *starlark.Thread, _ *starlark.Builtin, args starlark.Tuple, _ []starlark.Tuple) (starlark.Value, error) {
		n, _ := starlark.AsInt32(args[0])
		b.wait(n)
		return starlark.None, nil
	})
	evs := &events{loading: map[string]int{}}
	var loadErr error
	done := false
	s := cosched.New(cosched.Policy{Mode: "jitter"})
	s.Install()
	s.Go("load", func() {
		_, loadErr = dawn.Load(dir, &dawn.LoadOptions{Events: evs, Builtins: starlark.StringDict{"vb_wait": builtin, "vh_wait": hbuiltin}})
		done = true
	})
	res := s.Wait(20 * time.Second)
	cosched.Uninstall()
	cyclic, _ := c.cycle()
	v.Classes = append(v.Classes, fmt.Sprintf("aligned-graph:%d", ac.Graph%len(alignedGraphs)))
	v.NonTrivial = true
	if res.TimedOut {
		return ev.Verdict{Skip: "watchdog-inconclusive"}
	}
	if res.Deadlock {
		return ev.Failf("deadlock", "Load hangs with aligned package loaders (cyclic=%v): %s", cyclic, res.Report)
	}
	if !done {
		return ev.Failf("load-did-not-return", "all goroutines ended but Load did not return")
	}
	evs.mu.Lock()
	defer evs.mu.Unlock()
	for l, n := range evs.loading {
		if n > 1 {
			return ev.Failf("module-loaded-twice", "module %s was executed %d times", l, n)
		}
	}
	if cyclic && (loadErr == nil || !(strings.Contains(strings.ToLower(loadErr.Error()), "cyclic") || strings.Contains(strings.ToLower(loadErr.Error()), "cycle"))) {
		return ev.Failf("cycle-not-reported", "cyclic load graph, aligned loaders: Load returned %v", loadErr)
	}
	if !cyclic && loadErr != nil {
		return ev.Failf("acyclic-load-failed", "acyclic load graph, aligned loaders: Load failed: %v", loadErr)
	}
	return v
}

func TestC06Aligned(t *testing.T) {
	iters := run.N(1500, 20000)
	i := -1
	ev.Enumerate(run, t, "aligned", func() (AlignedCase, bool) {
		i++
		if i >= iters {
			return AlignedCase{}, false
		}
		return AlignedCase{Graph: i % len(alignedGraphs), Iter: i/len(alignedGraphs) + 100000*run.Shard, Spin: (i / len(alignedGraphs) % 7) * 40}, true
	}, execAligned)
}

// catalogue of small load graphs for the bounded-exhaustive schedule enumeration
var catalogue = []Case{
	{Pkgs: [][]int{{0}, {1}}, Helpers: [][]int{{1}, {0}}},           // two packages, helpers in a 2-ring
	{Pkgs: [][]int{{101}, {100}}, Helpers: nil},                     // two BUILD files loading each other
	{Pkgs: [][]int{{101}, {0}}, Helpers: [][]int{{1}, {100}}},       // 4-ring through two packages: p0 -> p1 -> h0 -> h1 -> p0
	{Pkgs: [][]int{{101}, {0}}, Helpers: [][]int{{1}, {2}, {100}}},  // 5-ring
	{Pkgs: [][]int{{0}, {1}, {2}}, Helpers: [][]int{{1}, {2}, {0}}}, // three packages entering a 3-ring
	{Pkgs: [][]int{{0}, {1}}, Helpers: [][]int{{1}, {2}, {}}},       // acyclic: shared chain entered at two points
	{Pkgs: [][]int{{0, 1}, {1, 0}}, Helpers: [][]int{{2}, {2}, {}}}, // acyclic: diamond from two packages
	{Pkgs: [][]int{{101, 0}, {0}}, Helpers: [][]int{{}}},            // acyclic: BUILD loads BUILD, shared helper
}

// TestC06Exhaustive runs every catalogue graph under EVERY run-until-block schedule with one
// (quick) or two (thorough) preemptions: step numbers up to the length of the unpreempted load,
// every choice of the goroutine to switch to.
func TestC06Exhaustive(t *testing.T) {
	maxK := 1
	if !run.Quick() {
		maxK = 2
	}
	var all []Case
	for gi, g := range catalogue {
		maxK := maxK
		if gi == 2 || gi == 3 {
			maxK = 2 // the long rings through two packages get two preemptions in the quick tier as well
		}
		g.Flags = make([]bool, len(g.Pkgs))
		base := g
		base.Pol = cosched.Policy{Mode: "preempt"}
		steps := loadSteps(base) + 3
		all = append(all, base)
		for s1 := 1; s1 <= steps; s1++ {
			for c1 := 0; c1 < 3; c1++ {
				x := g
				x.Pol = cosched.Policy{Mode: "preempt", Preempt: []int{s1}, Choices: []int{c1}}
				all = append(all, x)
				if maxK >= 2 {
					for s2 := s1 + 1; s2 <= steps; s2++ {
						for c2 := 0; c2 < 2; c2++ {
							y := g
							y.Pol = cosched.Policy{Mode: "preempt", Preempt: []int{s1, s2}, Choices: []int{c1, c2}}
							all = append(all, y)
						}
					}
				}
			}
		}
	}
	i := -1
	ev.Enumerate(run, t, "catalogue", func() (Case, bool) {
		for {
			i++
			if i >= len(all) {
				return Case{}, false
			}
			if i%run.NShards == run.Shard {
				return all[i], true
			}
		}
	}, exec)
	run.Extra("exhaustive_catalogue_schedules", len(all))
	run.Extra("exhaustive_max_preemptions", maxK)
	run.SetExhaustive(true)
}

// loadSteps returns the number of scheduling points of an unpreempted load of the case.
func loadSteps(c Case) int {
	dir, err := os.MkdirTemp("", "c06s-")
	if err != nil {
		return 60
	}
	defer os.RemoveAll(dir)
	c.write(dir)
	s := cosched.New(c.Pol)
	s.Install()
	s.Go("load", func() { dawn.Load(dir, &dawn.LoadOptions{}) })
	s.Wait(20 * time.Second)
	cosched.Uninstall()
	return s.Steps
}

func TestC06(t *testing.T) {
	ev.Explore(run, t, "load", run.N(1200, 20000), gen, exec)
}
