package c06

import (
	"fmt"
	"os"
	"sort"
	"strings"
	"testing"
	"time"

	dawn "github.com/pgavlin/dawn"
	"github.com/pgavlin/dawn/label"
	"github.com/pgavlin/dawn/verif/ev"
	"pgregory.net/rapid"
)

// Reload histories: what watch mode does. One Project value is loaded once and then reloaded after
// every rewrite of the module files; each reload is a load of the graph that is on disk then and is
// held to the same oracle as a fresh Load - whatever the earlier loads of that Project saw (cycles,
// other targets, other flags).

type ReloadCase struct {
	Graphs []Case `json:"graphs"` // same number of packages and helpers each; the first is acyclic
}

// judge applies the statement to one finished load of graph c.
func judge(c Case, proj *dawn.Project, loadErr error, evs *events, where string) *ev.Verdict {
	fail := func(sig, format string, args ...any) *ev.Verdict {
		f := ev.Failf(sig, where+": "+format, args...)
		return &f
	}
	evs.mu.Lock()
	defer evs.mu.Unlock()
	for l, n := range evs.loading {
		if n > 1 {
			return fail("module-loaded-twice", "module %s was executed %d times", l, n)
		}
	}
	if c.missingReachable() {
		if loadErr == nil {
			return fail("missing-module-loaded", "a reachable module file does not exist but the load succeeded")
		}
		return nil
	}
	if cyclic, _ := c.cycle(); cyclic {
		if loadErr == nil {
			return fail("cycle-not-reported", "the load graph has a cycle but the load succeeded")
		}
		if le := strings.ToLower(loadErr.Error()); !strings.Contains(le, "cyclic") && !strings.Contains(le, "cycle") {
			return fail("cycle-not-reported", "the load graph has a cycle; the load failed with %q, which does not name a cyclic dependency", loadErr.Error())
		}
		return nil
	}
	if loadErr != nil {
		return fail("acyclic-load-failed", "acyclic load graph but the load failed: %v", loadErr)
	}
	var want, got []string
	for i := range c.Pkgs {
		want = append(want, pkgPaths[i]+":t")
	}
	for _, t := range proj.Targets() {
		got = append(got, t.Label().String())
	}
	sort.Strings(want)
	sort.Strings(got)
	if strings.Join(want, " ") != strings.Join(got, " ") {
		return fail("wrong-targets", "targets after the load: %v, want %v", got, want)
	}
	var wantF, gotF []string
	for i := range c.Pkgs {
		if i < len(c.Flags) && c.Flags[i] {
			comps := append(label.Split(pkgPaths[i])[1:], "fl")
			wantF = append(wantF, strings.Join(comps, "."))
		}
	}
	for _, f := range proj.Flags() {
		gotF = append(gotF, f.Name)
	}
	sort.Strings(wantF)
	sort.Strings(gotF)
	if strings.Join(wantF, " ") != strings.Join(gotF, " ") {
		return fail("wrong-flags", "flags after the load: %v, want %v", gotF, wantF)
	}
	return nil
}

var reloadLimit = 20 * time.Second

func execReload(rc ReloadCase) (v ev.Verdict) {
	if len(rc.Graphs) < 2 {
		return ev.Verdict{Skip: "short"}
	}
	for _, g := range rc.Graphs {
		if len(g.Pkgs) == 0 || len(g.Pkgs) > len(pkgPaths) || len(g.Pkgs) != len(rc.Graphs[0].Pkgs) || len(g.Helpers) != len(rc.Graphs[0].Helpers) {
			return ev.Verdict{Skip: "bad-case"}
		}
	}
	if cyc, _ := rc.Graphs[0].cycle(); cyc {
		return ev.Verdict{Skip: "first-graph-cyclic"}
	}
	dir, err := os.MkdirTemp("", "c06r-")
	if err != nil {
		return ev.Verdict{Skip: "mkdtemp"}
	}
	defer os.RemoveAll(dir)
	g0 := rc.Graphs[0]
	g0.write(dir)
	evs := &events{loading: map[string]int{}}
	proj, err := dawn.Load(dir, &dawn.LoadOptions{Events: evs})
	if f := judge(g0, proj, err, evs, "initial load"); f != nil {
		return *f
	}
	if proj == nil {
		return ev.Verdict{Skip: "first-load-failed"}
	}
	afterCycle := false
	for i, g := range rc.Graphs[1:] {
		g.write(dir)
		evs.mu.Lock()
		evs.loading = map[string]int{}
		evs.mu.Unlock()
		done := make(chan error, 1)
		var panicked any
		go func() {
			defer func() {
				if p := recover(); p != nil {
					panicked = p
					done <- fmt.Errorf("panic: %v", p)
				}
			}()
			done <- proj.Reload()
		}()
		var rerr error
		select {
		case rerr = <-done:
		case <-time.After(reloadLimit):
			reloadLimit = 2 * time.Second // a confirmed hang: do not spend 20 s on each case while rapid shrinks it
			return ev.Failf("reload-hangs", "reload %d has not returned after 20 s", i+1)
		}
		if panicked != nil {
			return ev.Failf("panic", "reload %d panicked: %v", i+1, panicked)
		}
		if f := judge(g, proj, rerr, evs, fmt.Sprintf("reload %d", i+1)); f != nil {
			return *f
		}
		cyc, _ := g.cycle()
		if !cyc && afterCycle {
			v.NonTrivial = true
			v.Classes = append(v.Classes, "acyclic-reload-after-cyclic")
		}
		if cyc {
			afterCycle = true
			v.Classes = append(v.Classes, "cyclic-reload")
		}
	}
	return v
}

func genReload(t *rapid.T) ReloadCase {
	first := gen(t)
	first.Missing = nil // the project must load once before it can be reloaded
	// make the first graph acyclic by dropping every load that points "backwards"
	np, nh := len(first.Pkgs), len(first.Helpers)
	for h := range first.Helpers {
		var keep []int
		for _, x := range first.Helpers[h] {
			if x < 100 && x > h {
				keep = append(keep, x)
			}
		}
		first.Helpers[h] = keep
	}
	for p := range first.Pkgs {
		var keep []int
		for _, x := range first.Pkgs[p] {
			if x < 100 || x-100 > p {
				keep = append(keep, x)
			}
		}
		first.Pkgs[p] = keep
	}
	rc := ReloadCase{Graphs: []Case{first}}
	n := rapid.IntRange(1, 4).Draw(t, "nreloads")
	for i := 0; i < n; i++ {
		var g Case
		switch rapid.IntRange(0, 3).Draw(t, "next") {
		case 0:
			g = first // back to the first (repaired) graph
		default:
			g = gen(t)
			// same shape: trim or pad to np packages and nh helpers
			for len(g.Pkgs) > np {
				g.Pkgs = g.Pkgs[:len(g.Pkgs)-1]
			}
			for len(g.Pkgs) < np {
				g.Pkgs = append(g.Pkgs, nil)
			}
			for len(g.Helpers) > nh {
				g.Helpers = g.Helpers[:len(g.Helpers)-1]
			}
			for len(g.Helpers) < nh {
				g.Helpers = append(g.Helpers, nil)
			}
			g.Flags = append(g.Flags, make([]bool, np)...)[:np]
		}
		rc.Graphs = append(rc.Graphs, g)
	}
	if rapid.Bool().Draw(t, "endrepaired") {
		rc.Graphs = append(rc.Graphs, first)
	}
	return rc
}

func TestC06Reload(t *testing.T) {
	ev.Explore(run, t, "reload", run.N(400, 6000), genReload, execReload)
}
