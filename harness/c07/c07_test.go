package c07

import (
	"bytes"
	"fmt"
	"testing"

	"github.com/pgavlin/dawn/verif/ev"
	"github.com/pgavlin/dawn/verif/starval"
	"go.starlark.net/starlark"
	"pgregory.net/rapid"
)

var run *ev.Run

func TestMain(m *testing.M) {
	run = ev.Start("C07", "exploration",
		"rapid draws a value descriptor (scalars from boundary classes: int widths 255/256/65535/65536/2^31/2^63/2^64/big, "+
			"uniform 256..65535, raw float bits, string/bytes lengths 0/1/255/256/65535/65536; tuples/lists/dicts/sets/host objects "+
			"nested to depth 4 with sizes 0..9 and 999/1000/1001/2000/2001/3000 at any position; refs to earlier or enclosing containers "+
			"give sharing and cycles; tuple slices t[i:j] share the storage of an earlier tuple). Oracle: Iso(v, Decode(Encode(v))) incl. aliasing bijection, deterministic encoding, re-encode fixpoint; "+
			"pair check: one-leaf mutation must not decode Equal; transient check: lists of 120-3000 host objects whose pickler allocates the argument container on every call, with a garbage collection forced every 10/50/200 calls, must still round-trip isomorphically; transport check: values are read through a reader that is not an io.ByteReader and returns 1, 7 or 4096 bytes per call, with unrelated bytes after the pickle. Non-trivial = value has a boundary scalar, a non-empty container or aliasing; "+
			"distinct by SHA-256 of the descriptor JSON.",
		"sizes <= 3002 elements, strings <= 65537 bytes, memo ids < 65536",
		"cycles passing through a host object's argument tuple are not generated here (NEWOBJ without BUILD cannot express them; see C08)",
	)
	ev.Main(m, run)
}

type Case struct {
	V starval.V `json:"v"`
}

func classify(d starval.V, st starval.Stats) (bool, []string) {
	var cl []string
	nt := false
	ms := starval.MaxSize(d)
	cl = append(cl, "maxsize:"+starval.SizeClass(ms))
	if ms > 0 {
		nt = true
	}
	if st.Shared > 0 {
		cl = append(cl, "shared")
		nt = true
	}
	if st.Cyclic > 0 {
		cl = append(cl, "cyclic")
		nt = true
	}
	if starval.HasKind(d, "tslice") {
		cl = append(cl, "tuple-slice-sharing-storage")
	}
	if starval.HasKind(d, "host") {
		cl = append(cl, "host")
	}
	if starval.HasKind(d, "int", "float", "str", "bytes") {
		nt = true
	}
	cl = append(cl, "root:"+d.K)
	return nt, cl
}

func execRoundTrip(c Case) ev.Verdict {
	v, st := starval.Build(c.V)
	nt, cl := classify(c.V, st)
	out := ev.Verdict{NonTrivial: nt, Classes: cl}
	enc, err := starval.Encode(v)
	if err != nil {
		out.Fail, out.Sig = fmt.Sprintf("Encode failed: %v", err), "encode-error"
		return out
	}
	enc2, err := starval.Encode(v)
	if err != nil || !bytes.Equal(enc, enc2) {
		out.Fail, out.Sig = "Encode is not deterministic", "encode-nondeterministic"
		return out
	}
	dec, err := starval.Decode(enc)
	if err != nil {
		out.Fail, out.Sig = fmt.Sprintf("Decode(Encode(v)) failed: %v", err), "decode-error"
		return out
	}
	if dec == nil {
		out.Fail, out.Sig = "Decode returned nil, nil", "decode-nil"
		return out
	}
	if ok, why := starval.Iso(v, dec); !ok {
		out.Fail, out.Sig = "round trip not isomorphic: "+why, "not-iso"
		return out
	}
	enc3, err := starval.Encode(dec)
	if err != nil || !bytes.Equal(enc, enc3) {
		out.Fail, out.Sig = fmt.Sprintf("re-encoding the decoded value differs (err=%v)", err), "reencode-differs"
		return out
	}
	return out
}

type PairCase struct {
	V    starval.V `json:"v"`
	Leaf int       `json:"leaf"`
	New  starval.V `json:"new"`
}

func execPair(c PairCase) ev.Verdict {
	n := starval.CountLeaves(c.V)
	if n == 0 {
		return ev.Verdict{Skip: "no-leaf"}
	}
	idx := c.Leaf % n
	m := starval.ReplaceLeaf(c.V, &idx, c.New)
	a, sa := starval.Build(c.V)
	b, _ := starval.Build(m)
	if sa.Cyclic > 0 {
		return ev.Verdict{Skip: "cyclic-pair"}
	}
	eq, err := starlark.Equal(a, b)
	if err != nil {
		return ev.Verdict{Skip: "equal-error"}
	}
	if eq {
		return ev.Verdict{Skip: "mutation-equal"}
	}
	out := ev.Verdict{NonTrivial: true, Classes: []string{"pair"}}
	ea, err1 := starval.Encode(a)
	eb, err2 := starval.Encode(b)
	if err1 != nil || err2 != nil {
		out.Fail, out.Sig = fmt.Sprintf("Encode failed: %v %v", err1, err2), "encode-error"
		return out
	}
	da, err1 := starval.Decode(ea)
	db, err2 := starval.Decode(eb)
	if err1 != nil || err2 != nil {
		out.Fail, out.Sig = fmt.Sprintf("Decode failed: %v %v", err1, err2), "decode-error"
		return out
	}
	eq, err = starlark.Equal(da, db)
	if err == nil && eq {
		out.Fail, out.Sig = "two different values decode to equal values", "collision"
	}
	return out
}

func TestC07(t *testing.T) {
	opts := starval.GenOpts{MaxDepth: 4, BigProb: 3, Hosts: true, Refs: true, BigStrLen: true}
	ev.Explore(run, t, "roundtrip", run.N(12000, 150000), func(rt *rapid.T) Case {
		return Case{V: starval.Gen(rt, opts)}
	}, execRoundTrip)

	popts := starval.GenOpts{MaxDepth: 3, BigProb: 1, Hosts: true, Refs: false, BigStrLen: false}
	ev.Explore(run, t, "pair", run.N(5000, 60000), func(rt *rapid.T) PairCase {
		v := starval.Gen(rt, popts)
		return PairCase{V: v, Leaf: rapid.IntRange(0, 1000).Draw(rt, "leaf"), New: starval.GenHashable(rt, 2, popts)}
	}, execPair)
}
