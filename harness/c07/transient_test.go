package c07

import (
	"bytes"
	"fmt"
	"io"
	"runtime"
	"testing"

	"github.com/pgavlin/dawn/pickle"
	"github.com/pgavlin/dawn/verif/ev"
	"github.com/pgavlin/dawn/verif/starval"
	"go.starlark.net/starlark"
	"pgregory.net/rapid"
)

// Host picklers may build the argument tuple of an object on demand (dawn's own environment pickler
// allocates function-code objects that way). Such values exist only while they are being encoded:
// the garbage collector may free them during the same Encode call and hand their addresses to later
// ones. Sharing must still mean "the same value", never "the same address at different times".

type TransientCase struct {
	N  int `json:"n"`  // host objects in the list
	GC int `json:"gc"` // a collection is forced at every GC-th Pickle call
	W  int `json:"w"`  // payload width (elements of the fresh list)
}

func execTransient(c TransientCase) ev.Verdict {
	if c.N <= 0 || c.GC <= 0 || c.W <= 0 {
		return ev.Verdict{Skip: "bad-case"}
	}
	elems := make([]starlark.Value, c.N)
	for i := range elems {
		elems[i] = &starval.Host{Name: "T", Payload: starlark.MakeInt(i)}
	}
	v := starlark.NewList(elems)
	calls := 0
	transient := pickle.PicklerFunc(func(x starlark.Value) (string, string, starlark.Tuple, error) {
		h, ok := x.(*starval.Host)
		if !ok {
			return "", "", nil, pickle.ErrCannotPickle
		}
		calls++
		if calls%c.GC == 0 {
			runtime.GC()
		}
		// a fresh container per call: garbage as soon as it has been written
		fresh := make([]starlark.Value, c.W)
		for i := range fresh {
			fresh[i] = h.Payload
		}
		return "verif", h.Name, starlark.Tuple{starlark.NewList(fresh)}, nil
	})
	var buf bytes.Buffer
	if err := pickle.NewEncoder(&buf, transient).Encode(v); err != nil {
		return ev.Failf("encode-error", "Encode failed: %v", err)
	}
	dec, err := starval.Decode(buf.Bytes())
	if err != nil {
		return ev.Failf("decode-error", "Decode(Encode(v)) failed: %v", err)
	}
	// the value that was encoded, as the decoder should see it
	want := make([]starlark.Value, c.N)
	for i := range want {
		fresh := make([]starlark.Value, c.W)
		for j := range fresh {
			fresh[j] = starlark.MakeInt(i)
		}
		want[i] = &starval.Host{Name: "T", Payload: starlark.NewList(fresh)}
	}
	if ok, why := starval.Iso(starlark.NewList(want), dec); !ok {
		return ev.Failf("not-iso", "round trip through a pickler that allocates its arguments on demand (%d objects, collection every %d calls) is not isomorphic: %s", c.N, c.GC, why)
	}
	return ev.Verdict{NonTrivial: c.N/c.GC >= 2, Classes: []string{fmt.Sprintf("transient-args:gc-every-%d", c.GC)}}
}

func TestC07Transient(t *testing.T) {
	ev.Explore(run, t, "transient", run.N(60, 600), func(rt *rapid.T) TransientCase {
		return TransientCase{N: rapid.SampledFrom([]int{400, 1500, 3000, 120}).Draw(rt, "n"), GC: rapid.SampledFrom([]int{50, 10, 200}).Draw(rt, "gc"), W: rapid.IntRange(1, 4).Draw(rt, "w")}
	}, execTransient)
}

// ---- other transports ---------------------------------------------------------------------------
//
// The decoder is handed readers that are not io.ByteReaders and return whatever chunk they like (a
// file, a pipe, a base64 decoder), with unrelated bytes following the STOP opcode. Each value is read
// from its own stream: what a Decoder may do with bytes *after* its pickle (reading ahead is a
// legitimate implementation choice, and one of the property-preserving changes of the benign round
// does exactly that) is not part of the statement, so values sharing one stream are not checked.

type StreamCase struct {
	Vs    []starval.V `json:"vs"`
	Chunk int         `json:"chunk"` // the transport returns at most this many bytes per Read (0 = all it has)
}

// chunkReader is a plain io.Reader (no ReadByte, no WriteTo).
type chunkReader struct {
	data  []byte
	chunk int
}

func (r *chunkReader) Read(p []byte) (int, error) {
	if len(r.data) == 0 {
		return 0, io.EOF
	}
	n := len(p)
	if r.chunk > 0 && n > r.chunk {
		n = r.chunk
	}
	if n > len(r.data) {
		n = len(r.data)
	}
	copy(p, r.data[:n])
	r.data = r.data[n:]
	return n, nil
}

func execStream(c StreamCase) ev.Verdict {
	if len(c.Vs) == 0 {
		return ev.Verdict{Skip: "short"}
	}
	for i, d := range c.Vs {
		want, _ := starval.Build(d)
		var stream bytes.Buffer
		if err := pickle.NewEncoder(&stream, starval.Pickler).Encode(want); err != nil {
			return ev.Failf("encode-error", "Encode failed: %v", err)
		}
		stream.WriteString("trailing bytes that are not a pickle \x00\xff(((")
		r := &chunkReader{data: stream.Bytes(), chunk: c.Chunk}
		got, err := pickle.NewDecoder(r, starval.Unpickler).Decode()
		if err != nil {
			return ev.Failf("stream-decode-error", "value %d read through a reader that returns at most %d bytes per call does not decode: %v", i+1, c.Chunk, err)
		}
		if ok, why := starval.Iso(want, got); !ok {
			return ev.Failf("stream-not-iso", "value %d read through a reader that returns at most %d bytes per call decodes to something else: %s", i+1, c.Chunk, why)
		}
	}
	return ev.Verdict{NonTrivial: true, Classes: []string{"plain-reader"}}
}

func TestC07Stream(t *testing.T) {
	opts := starval.GenOpts{MaxDepth: 2, BigProb: 0, Hosts: true, Refs: true}
	ev.Explore(run, t, "stream", run.N(1500, 20000), func(rt *rapid.T) StreamCase {
		n := rapid.IntRange(2, 5).Draw(rt, "nvalues")
		c := StreamCase{Chunk: rapid.SampledFrom([]int{0, 1, 7, 4096}).Draw(rt, "chunk")}
		for i := 0; i < n; i++ {
			c.Vs = append(c.Vs, starval.Gen(rt, opts))
		}
		return c
	}, execStream)
}
