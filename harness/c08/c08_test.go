package c08

import (
	"fmt"
	"os"
	"path/filepath"
	"strings"
	"testing"

	"github.com/pgavlin/dawn/verif/ev"
	"github.com/pgavlin/dawn/verif/projsim"
	"pgregory.net/rapid"
)

var run *ev.Run

func TestMain(m *testing.M) {
	projsim.MaybeChild()
	run = ev.Start("C08", "exploration",
		"rapid draws a BUILD.dawn from a grammar of module-level items - constants of every value class, deeply nested constants, lists/dicts/sets of 1001 "+
			"and 2500 elements, a tuple together with a slice of it, sets of long strings (hashed with a per-process seed), self-containing lists (also next to such a set), plain / directly recursive / mutually recursive helpers, default arguments, 1- and 2-level closures, "+
			"nested defs, helpers with every parameter kind (defaults, *args, mandatory and optional keyword-only, **kwargs), lambdas, comprehensions, for/while/if code, universals, globals bound to builtins, and predeclared values (the vf module, host, "+
			"package, a Cache(), a flag value, another target, path/label/glob/contains builtins) - and a target function that references a generated subset "+
			"of them; a second target in another package references its own items. Oracle, each step in a fresh child process with a 64 MB stack limit: "+
			"(1) Load+Run exits normally and no error mentions the function environment; (2) a second process on the identical text evaluates nothing, "+
			"neither does one on a copy of text and state at another absolute path; "+
			"(3) after one generated mutation of something the target references (a constant, a leaf deep inside a collection, an element of a big "+
			"collection, helper code, a default, a captured value, a helper's parameter list (star removed, parameters renamed or reordered so that the same call returns something else), a called universal, a global rebound to another builtin) a third process re-evaluates "+
			"the target, and after a mutation of something only the other package's target references it does not. Non-trivial = the target uses recursion, "+
			"a closure, a default, a nested def, a collection > 1000, cyclic data or a predeclared module. Distinct by program text.",
		"programs <= ~60 lines; 'every kind of predeclared value' means the kinds dawn predeclares plus the harness module",
	)
	ev.Main(m, run)
}

// Item is one module-level definition.
type Item struct {
	Kind string `json:"kind"`
	K    string `json:"k"`  // the literal / parameter that a mutation changes
	K2   string `json:"k2"` // its mutated form
}

type Case struct {
	Items    []Item `json:"items"`    // items of package //, referenced by target t in order Uses
	Uses     []int  `json:"uses"`     // indexes of referenced items
	Other    []Item `json:"other"`    // items of package //p2, all referenced by its target
	Mut      int    `json:"mut"`      // selector of the mutated item
	MutOther bool   `json:"mutother"` // mutate an item of //p2 instead (must not re-run t)
}

var hard = map[string]bool{"order": true, "bound-method": true, "valkind": true, "tuple-slice": true, "strset": true, "cyclic-strset": true, "signature": true, "kwonly": true, "varargs": true, "closure-pair": true, "wrapped-twice": true, "recursive": true, "mutual": true, "closure": true, "closure2": true, "default": true, "nested": true, "biglist": true, "bigdict": true, "bigset": true, "cyclic": true,
	"pre-vf": true, "pre-cache": true, "pre-host": true, "pre-os": true}

// render returns definition text and the use expression of item i (with name suffix sfx).
func (it Item) render(i int, sfx string, mutated bool) (def, use string) {
	k := it.K
	if mutated {
		k = it.K2
	}
	n := fmt.Sprintf("%s%d", sfx, i)
	switch it.Kind {
	case "const":
		return fmt.Sprintf("G%s = %s\n", n, k), "G" + n
	case "deepconst":
		return fmt.Sprintf("G%s = {\"a\": [1, {\"b\": (2, [%s, 3])}], \"c\": None}\n", n, k), "G" + n
	case "biglist":
		return fmt.Sprintf("G%s = list(range(1001))\nG%s[1000] = %s\n", n, n, k), "G" + n
	case "bigdict":
		return fmt.Sprintf("G%s = {str(i): i for i in range(2500)}\nG%s[\"2499\"] = %s\n", n, n, k), "len(G" + n + ")"
	case "bigset":
		return fmt.Sprintf("G%s = set(range(1001))\nG%s.add(%s)\n", n, n, k), "len(G" + n + ")"
	case "biginline":
		return fmt.Sprintf("G%s = {\"big\": list(range(1001)), \"z\": %s}\n", n, k), "G" + n + "[\"z\"]"
	case "cyclic":
		return fmt.Sprintf("G%s = [1, %s]\nG%s.append(G%s)\n", n, k, n, n), "len(G" + n + ")"
	case "tuple-slice":
		// two tuples that share storage (a slice of a tuple and the tuple), the prefix referenced first
		return fmt.Sprintf("V%s = (1, 4, %s)\nP%s = V%s[:2]\n", n, k, n, n), "[P" + n + ", V" + n + "]"
	case "strset":
		// a set whose elements hash differently in every process (strings longer than the inline-hash limit)
		return fmt.Sprintf("G%s = set([\"first-long-string-element-%s\", \"second-long-string-element\", \"third-long-string-element\", (\"tuple-with-a-long-string-inside\", 1)])\n", n, fmt.Sprintf("%x", []byte(k))), "len(G" + n + ")"
	case "cyclic-strset":
		// self-referential data next to such a set: environments are then compared by their encodings
		return fmt.Sprintf("G%s = [1, %s, set([\"first-long-string-element\", \"second-long-string-element\", \"third-long-string-element\"])]\nG%s.append(G%s)\n", n, k, n, n), "len(G" + n + ")"
	case "func":
		return fmt.Sprintf("def h%s(x):\n    return [x, %s]\n", n, k), "h" + n + "(1)"
	case "recursive":
		return fmt.Sprintf("def r%s(n):\n    if n <= 0:\n        return %s\n    return r%s(n - 1)\n", n, k, n), "r" + n + "(3)"
	case "mutual":
		return fmt.Sprintf("def ev%s(n):\n    if n == 0:\n        return True\n    return od%s(n - 1)\ndef od%s(n):\n    if n == 0:\n        return %s\n    return ev%s(n - 1)\n", n, n, n, k, n), "ev" + n + "(3)"
	case "default":
		return fmt.Sprintf("def d%s(x, y=%s):\n    return [x, y]\n", n, k), "d" + n + "(1)"
	case "closure":
		return fmt.Sprintf("def mk%s(k):\n    def inner(x):\n        return [x, k]\n    return inner\ncl%s = mk%s(%s)\n", n, n, n, k), "cl" + n + "(1)"
	case "closure2":
		return fmt.Sprintf("def mk%s(k):\n    def mid(j):\n        def inner(x):\n            return [x, j, k]\n        return inner\n    return mid(2)\ncl%s = mk%s(%s)\n", n, n, n, k), "cl" + n + "(1)"
	case "closure-pair":
		// two closures of one def (one factory called twice); the mutation changes what the second captures
		return fmt.Sprintf("def mk%s(k):\n    def inner(x):\n        return [x, k]\n    return inner\ncla%s = mk%s(\"first\")\nclb%s = mk%s(%s)\n", n, n, n, n, n, k), "[cla" + n + "(1), clb" + n + "(1)]"
	case "wrapped-twice":
		// one wrapper applied twice around a helper; the mutation changes the helper
		return fmt.Sprintf("def hw%s(x):\n    return [x, %s]\ndef wrap%s(f):\n    def w(x):\n        return f(x)\n    return w\nst%s = wrap%s(wrap%s(hw%s))\n", n, k, n, n, n, n, n), "st" + n + "(1)"
	case "kwonly":
		// a helper with a mandatory keyword-only parameter
		return fmt.Sprintf("def kw%s(a, *, c):\n    return [a, c, %s]\n", n, k), "kw" + n + "(1, c=2)"
	case "varargs":
		// every parameter kind at once
		return fmt.Sprintf("def va%s(a, b=%s, *args, c, d=5, **kw):\n    return [a, b, args, c, d, kw]\n", n, k), "va" + n + "(1, c=3, z=4)"
	case "signature":
		// K = "parameters|body|call arguments": the mutation changes the parameter list (and maybe the names
		// used in the body) so that the same call returns something else
		f := strings.SplitN(k, "|", 3)
		return fmt.Sprintf("def sg%s(%s):\n    %s\n", n, f[0], f[1]), "sg" + n + "(" + f[2] + ")"
	case "nested":
		return fmt.Sprintf("def ne%s(x):\n    def sub(y):\n        return [y, %s]\n    return sub(x)\n", n, k), "ne" + n + "(1)"
	case "lambda":
		return fmt.Sprintf("la%s = lambda x: [x, %s]\n", n, k), "la" + n + "(1)"
	case "compr":
		return fmt.Sprintf("def co%s(n):\n    return [[j, %s] for j in range(n) if j != 1]\n", n, k), "co" + n + "(3)"
	case "loop":
		return fmt.Sprintf("def lo%s(n):\n    acc = []\n    for j in range(n):\n        if j %% 2 == 0:\n            acc.append(%s)\n        else:\n            acc.append(j)\n    while len(acc) > 2:\n        acc.pop()\n    return acc\n", n, k), "lo" + n + "(4)"
	case "universal":
		// K / K2 are names of universals
		return fmt.Sprintf("def un%s(x):\n    return %s(x)\n", n, k), "un" + n + "([1, 2])"
	case "builtin-global":
		return fmt.Sprintf("fm%s = %s\n", n, k), "fm" + n + "(\"a\")"
	case "order":
		// K = "definitions|expression": two names bound in one order and used in an expression; the mutation swaps the
		// definitions together with their uses (compiled code refers to names by position)
		f := strings.SplitN(k, "|", 2)
		return strings.ReplaceAll(f[0], "@", n) + "\n", strings.ReplaceAll(f[1], "@", n)
	case "bound-method":
		// K = "receiver|method|call arguments": a global bound to a method of a value; the mutation changes the receiver
		f := strings.SplitN(k, "|", 3)
		return fmt.Sprintf("bm%s = %s.%s\n", n, f[0], f[1]), "bm" + n + "(" + f[2] + ")"
	case "valkind":
		// a global holding a value that is neither a scalar nor a list/dict/set/tuple literal: ranges, the
		// views returned by string and bytes methods
		return fmt.Sprintf("VK%s = %s\n", n, k), "[type(VK" + n + "), [x for x in VK" + n + "]]"
	case "pre-vf":
		return "", "vf.digest(\"x\")"
	case "pre-host":
		return "", "host.os"
	case "pre-package":
		return "", "package"
	case "pre-os":
		return "", "os.path.join(\"a\", \"b\")"
	case "pre-cache":
		return fmt.Sprintf("CA%s = Cache()\n", n), fmt.Sprintf("CA%s.once(\"k\", lambda: 1)", n)
	case "pre-flag":
		return fmt.Sprintf("FL%s = parse_flag(\"fl%s\", default=\"d\")\n", n, n), "FL" + n
	case "pre-builtins":
		return "", "[path(\":x\"), label(\"x\"), type(glob), type(contains), type(fail)]"
	}
	return "", "None"
}

func (c Case) text(mutated bool) (root, other string) {
	mi := -1
	if len(c.Uses) > 0 && !c.MutOther {
		mi = c.Uses[c.Mut%len(c.Uses)]
	}
	var b strings.Builder
	uses := map[int]string{}
	for i, it := range c.Items {
		def, use := it.render(i, "a", mutated && i == mi)
		b.WriteString(def)
		uses[i] = use
	}
	var us []string
	for _, u := range c.Uses {
		us = append(us, uses[u])
	}
	fmt.Fprintf(&b, "def tgt():\n    vf.log(\"//:t\", \"start\")\n    ins = [%s]\n    vf.write(\"out/t.out\", vf.digest(ins))\n    vf.log(\"//:t\", \"end\")\nT = target(name=\"t\", function=tgt, default=True)\n", strings.Join(us, ", "))
	root = b.String()

	var o strings.Builder
	mo := -1
	if c.MutOther && len(c.Other) > 0 {
		mo = c.Mut % len(c.Other)
	}
	var ous []string
	for i, it := range c.Other {
		def, use := it.render(i, "b", mutated && i == mo)
		o.WriteString(def)
		ous = append(ous, use)
	}
	fmt.Fprintf(&o, "def oth():\n    vf.log(\"//p2:u\", \"start\")\n    ins = [%s]\n    vf.write(\"out/u.out\", vf.digest(ins))\n    vf.log(\"//p2:u\", \"end\")\nU = target(name=\"u\", function=oth)\n", strings.Join(ous, ", "))
	other = o.String()
	return
}

func write(root string, rootText, otherText string) {
	os.MkdirAll(filepath.Join(root, "p2"), 0o755)
	os.WriteFile(filepath.Join(root, "dawn.toml"), []byte("name = \"c08\"\n"), 0o644)
	os.WriteFile(filepath.Join(root, "BUILD.dawn"), []byte(rootText), 0o644)
	os.WriteFile(filepath.Join(root, "p2", "BUILD.dawn"), []byte(otherText), 0o644)
	os.WriteFile(filepath.Join(root, "x.txt"), []byte("x"), 0o644)
}

func exec(c Case) (v ev.Verdict) {
	if len(c.Uses) == 0 {
		return ev.Verdict{Skip: "no-uses"}
	}
	sim, err := projsim.NewSim(&projsim.Model{Pkgs: []string{"//"}, Files: map[string]string{}, Comments: map[string]int{}, Blanks: map[string]int{}})
	if err != nil {
		return ev.Verdict{Skip: "mkdtemp"}
	}
	defer sim.Close()
	root := sim.Env.Root()
	os.Remove(filepath.Join(root, "BUILD.dawn"))
	rt, ot := c.text(false)
	write(root, rt, ot)

	sig := func(it Item) string { return it.Kind }
	for _, u := range c.Uses {
		k := c.Items[u].Kind
		v.Classes = append(v.Classes, "uses:"+k)
		if hard[k] {
			v.NonTrivial = true
		}
	}
	build := func(label string) projsim.BuildResult {
		return sim.ChildBuild(projsim.BuildReq{Label: label})
	}
	describe := func() string {
		var ks []string
		for _, u := range c.Uses {
			ks = append(ks, c.Items[u].Kind)
		}
		return strings.Join(ks, ",")
	}
	classOfFailure := func() string {
		// signature: which item kinds are involved (for known-findings matching)
		for _, u := range c.Uses {
			switch k := c.Items[u].Kind; k {
			case "recursive", "mutual", "cyclic":
				return k
			}
		}
		return "other"
	}
	check := func(step string, r projsim.BuildResult) *ev.Verdict {
		if r.ExitCode != 0 {
			se := r.Stderr
			if i := strings.Index(se, "\n"); i > 0 {
				se = se[:i]
			}
			f := ev.Failf("fingerprint-crash:"+classOfFailure(), "%s: the process died (status %d: %s) for a target using [%s]", step, r.ExitCode, se, describe())
			return &f
		}
		if r.Panic != "" {
			f := ev.Failf("fingerprint-panic:"+classOfFailure(), "%s: panic: %s (target uses [%s])", step, r.Panic, describe())
			return &f
		}
		all := r.LoadErr + " " + r.RunErr
		for _, e := range r.Events {
			if e.Err {
				all += " " + e.Text
			}
		}
		if strings.Contains(all, "function environment") || strings.Contains(all, "comparing function") || strings.Contains(all, "diffing environments") {
			f := ev.Failf("fingerprint-error:"+classOfFailure(), "%s: computing or comparing the environment fails: %s (target uses [%s])", step, strings.TrimSpace(all), describe())
			return &f
		}
		if !r.OK() {
			f := ev.Failf("build-failed", "%s: build failed: load=%q run=%q (target uses [%s])", step, r.LoadErr, r.RunErr, describe())
			return &f
		}
		return nil
	}
	// (1)
	r1 := build("//:t")
	if f := check("first build", r1); f != nil {
		return *f
	}
	ru := build("//p2:u")
	if f := check("first build of //p2:u", ru); f != nil {
		return *f
	}
	// (2) identical text, new process
	r2 := build("//:t")
	if f := check("second build", r2); f != nil {
		return *f
	}
	if ev2 := r2.EvaluatingSet(false); len(ev2) > 0 {
		reason := ""
		for _, e := range r2.Events {
			if e.Kind == "Evaluating" {
				reason = e.Text
			}
		}
		return ev.Failf("fingerprint-not-deterministic", "a second process on the identical text re-evaluates %v (%s); target uses [%s]", ev2, reason, describe())
	}
	// (2b) identical text and state at another absolute path (the project directory was moved or
	// checked out elsewhere): fingerprints may not depend on where the text lives
	if moved, err := sim.CloneFull(); err == nil {
		rm := moved.ChildBuild(projsim.BuildReq{Label: "//:t"})
		moved.Close()
		if f := check("build after moving the project", rm); f != nil {
			return *f
		}
		if evm := rm.EvaluatingSet(true); len(evm) > 0 {
			reason := ""
			for _, e := range rm.Events {
				if e.Kind == "Evaluating" && !strings.HasPrefix(e.Label, "source:") {
					reason = e.Text
				}
			}
			return ev.Failf("fingerprint-depends-on-location", "the identical project at another absolute path re-evaluates %v (%s); target uses [%s]", evm, reason, describe())
		}
	}
	// (3) mutation
	rt2, ot2 := c.text(true)
	if rt2 == rt && ot2 == ot {
		return v
	}
	write(root, rt2, ot2)
	r3 := build("//:t")
	if f := check("build after mutation", r3); f != nil {
		return *f
	}
	evaluated := false
	for _, l := range r3.EvaluatingSet(true) {
		if l == "//:t" {
			evaluated = true
		}
	}
	if c.MutOther {
		v.Classes = append(v.Classes, "mutate-unreferenced")
		if evaluated {
			return ev.Failf("unreferenced-change-reruns", "changing %s in //p2 (not referenced by //:t) re-evaluates //:t", sig(c.Other[c.Mut%len(c.Other)]))
		}
	} else {
		it := c.Items[c.Uses[c.Mut%len(c.Uses)]]
		v.Classes = append(v.Classes, "mutate:"+it.Kind)
		if !evaluated {
			return ev.Failf("change-not-detected:"+it.Kind, "changing the %s item (%s -> %s) that //:t references leaves //:t up to date (equal fingerprints)", it.Kind, it.K, it.K2)
		}
	}
	return v
}

// signature mutations: same call, other result
var sigPairs = [][2]string{
	{"*a|return a|1", "a|return a|1"},                                              // (1,) vs 1
	{"a, *b|return [a, b]|1, 2", "a, b|return [a, b]|1, 2"},                        // [1, (2,)] vs [1, 2]
	{"a, b|return [a, b]|a=1, b=2", "b, a|return [b, a]|a=1, b=2"},                 // [1, 2] vs [2, 1]
	{"a, b=2, c=3|return [a, b, c]|1, c=5", "a, c=2, b=3|return [a, c, b]|1, c=5"}, // [1,2,5] vs [1,5,3]
	{"a, *, c=2|return [a, c]|1", "a, *, c=3|return [a, c]|1"},
}

// the same pairs of names and values in another order of definition, uses swapped too: every pair evaluates differently
var orderPairs = [][2]string{
	// module-level globals
	{"OA@ = 1\nOB@ = 2\ndef og@():\n    return OA@ - OB@|og@()", "OB@ = 2\nOA@ = 1\ndef og@():\n    return OB@ - OA@|og@()"},
	// free variables of a closure
	{"def omk@(x, y):\n    def inner():\n        return x - y\n    return inner\noc@ = omk@(1, 2)|oc@()", "def omk@(x, y):\n    def inner():\n        return y - x\n    return inner\noc@ = omk@(1, 2)|oc@()"},
	// universal names
	{"def ou@(v):\n    return [len, str][0](v)|ou@([1, 2])", "def ou@(v):\n    return [str, len][0](v)|ou@([1, 2])"},
	// a builtin and the string that spells its name (both already occur in the file, so that the tables the compiled
	// code indexes do not move)
	{"OX@ = \"len\"\nOY@ = len\nON@ = len\ndef on@():\n    return [ON@]|on@()", "OX@ = \"len\"\nOY@ = len\nON@ = \"len\"\ndef on@():\n    return [ON@]|on@()"},
	{"OX@ = \"str\"\nOY@ = str\nON@ = [OY@, 1]\ndef on@():\n    return ON@|on@()", "OX@ = \"str\"\nOY@ = str\nON@ = [OX@, 1]\ndef on@():\n    return ON@|on@()"},
}

// bound methods: same method, another receiver
var boundPairs = [][2]string{
	{"\"abc\"|upper|", "\"abd\"|upper|"},
	{"\"a,b\"|split|\",\"", "\"a,c\"|split|\",\""},
	{"[1, 2, 3]|index|2", "[2, 1, 3]|index|2"},
	{"{\"k\": 1}|get|\"k\"", "{\"k\": 2}|get|\"k\""},
	{"\"x-%s\"|format|", "\"y-%s\"|format|"},
	{"b\"ab\"|elems|", "b\"ac\"|elems|"},
}

// values of other kinds: another value of the same kind, or the same elements as another kind
var valkindPairs = [][2]string{
	{"range(3)", "range(4)"}, {"range(1, 7, 2)", "range(1, 7, 3)"}, {"range(3)", "[0, 1, 2]"}, {"range(1001)", "range(1002)"},
	{"\"abc\".elems()", "\"abd\".elems()"}, {"\"abc\".codepoints()", "\"abd\".codepoints()"},
	{"\"abc\".elem_ords()", "\"abd\".elem_ords()"}, {"\"abc\".codepoint_ords()", "\"abd\".codepoint_ords()"},
	{"b\"abc\".elems()", "b\"abd\".elems()"}, {"\"abc\".codepoints()", "\"abc\".elems()"},
}

var kinds = []string{"order", "bound-method", "valkind", "closure-pair", "wrapped-twice", "signature", "kwonly", "varargs", "tuple-slice", "strset", "cyclic-strset", "const", "deepconst", "func", "recursive", "mutual", "default", "closure", "closure2", "nested", "lambda", "compr", "loop", "universal", "builtin-global",
	"biglist", "bigdict", "bigset", "biginline", "cyclic", "pre-vf", "pre-host", "pre-package", "pre-cache", "pre-flag", "pre-builtins", "recursive", "closure", "const"}

var pairs = [][2]string{{"7", "8"}, {"300", "65580"}, {"256", "257"}, {"65535", "65536"}, {"\"a\"", "\"b\""}, {"(1, 2)", "(1, 3)"}, {"[1, 300]", "[1, 301]"}, {"1.5", "2.5"}, {"None", "False"}, {"{\"k\": 1}", "{\"k\": 2}"}, {"b\"x\"", "b\"y\""}, {"12345678901234567890", "12345678901234567891"},
	// integers around the widths of fixed-size encodings, and their two's-complement aliases
	{"9223372036854775808", "-9223372036854775808"}, {"18446744073709551615", "-1"}, {"4294967296", "0"}, {"2147483648", "-2147483648"}, {"9223372036854775807", "9223372036854775808"}, {"340282366920938463463374607431768211456", "0"},
	// values of different types that the language calls equal
	{"1", "1.0"}, {"[1, 2]", "[1.0, 2]"}, {"(0, 7)", "(0.0, 7)"}, {"{\"k\": 3}", "{\"k\": 3.0}"}, {"-0.0", "0.0"}, {"2", "2.0"}}

func genItem(t *rapid.T, label string) Item {
	k := rapid.SampledFrom(kinds).Draw(t, label)
	it := Item{Kind: k}
	switch k {
	case "universal":
		p := rapid.SampledFrom([][2]string{{"len", "str"}, {"sorted", "list"}, {"repr", "str"}, {"tuple", "list"}}).Draw(t, "univ")
		it.K, it.K2 = p[0], p[1]
	case "builtin-global":
		p := rapid.SampledFrom([][2]string{{"str", "repr"}, {"len", "str"}, {"repr", "type"}}).Draw(t, "bg")
		it.K, it.K2 = p[0], p[1]
	case "signature":
		p := rapid.SampledFrom(sigPairs).Draw(t, "sig")
		it.K, it.K2 = p[0], p[1]
	case "order":
		p := rapid.SampledFrom(orderPairs).Draw(t, "order")
		it.K, it.K2 = p[0], p[1]
	case "bound-method":
		p := rapid.SampledFrom(boundPairs).Draw(t, "bound")
		it.K, it.K2 = p[0], p[1]
	case "valkind":
		p := rapid.SampledFrom(valkindPairs).Draw(t, "valkind")
		it.K, it.K2 = p[0], p[1]
	case "pre-vf", "pre-host", "pre-package", "pre-os", "pre-cache", "pre-flag", "pre-builtins":
		// no mutation
	default:
		p := rapid.SampledFrom(pairs).Draw(t, "pair")
		it.K, it.K2 = p[0], p[1]
		if k == "bigset" {
			it.K, it.K2 = "5000", "5001"
		}
	}
	return it
}

func gen(t *rapid.T) Case {
	n := rapid.IntRange(1, 6).Draw(t, "nitems")
	var c Case
	for i := 0; i < n; i++ {
		c.Items = append(c.Items, genItem(t, "kind"))
	}
	for i := range c.Items {
		if rapid.IntRange(0, 3).Draw(t, "use") != 3 || len(c.Uses) == 0 && i == n-1 {
			c.Uses = append(c.Uses, i)
		}
	}
	no := rapid.IntRange(1, 3).Draw(t, "nother")
	for i := 0; i < no; i++ {
		it := genItem(t, "okind")
		if it.Kind == "pre-flag" {
			it.Kind = "const"
			it.K, it.K2 = "1", "2"
		}
		c.Other = append(c.Other, it)
	}
	c.Mut = rapid.IntRange(0, 9).Draw(t, "mut")
	c.MutOther = rapid.IntRange(0, 4).Draw(t, "mutother") == 4
	return c
}

func TestC08(t *testing.T) {
	ev.Explore(run, t, "fingerprint", run.N(100, 2500), gen, exec)
}
