package c09

import (
	"fmt"
	"os"
	"runtime"
	"strconv"
	"testing"
	"time"

	"github.com/pgavlin/dawn/verif/ev"
	"github.com/pgavlin/dawn/verif/rungraph"
	"pgregory.net/rapid"
)

var run *ev.Run

func TestMain(m *testing.M) {
	run = ev.Start("C09", "exploration",
		"each shard runs under a CPU affinity of L in {1,2,3,4,16} CPUs (taskset), which is the runner's parallelism limit (runtime.NumCPU, asserted). "+
			"rapid draws graphs biased to fans wider than L (up to L+10 ready targets; a quarter of them with a dependency cycle closed by a back edge; a third "+
			"of the targets carry on after a failed dependency, as a runner.Target may) with 0-3 scheduling points per body and a schedule "+
			"(cooperative token scheduler over runner.go's scheduling points, or delay injection). Harness Targets keep a counter of targets executing: "+
			"+1 inside LoadTarget/Evaluate, -1 around EvaluateTargets; every +1 happens after the slot is taken and every -1 before it is returned, so the "+
			"counter never exceeds the slots held. Oracle: counter <= L at every instant; the build completes (a leaked slot or a slot held while waiting "+
			"shows as a confirmed deadlock at small L; an extra release shows as counter > L); Run returns the root's outcome. Non-trivial = more targets "+
			"were ready than slots (fan wider than L) or depth >= 3 at L = 1. Distinct by case JSON.",
		"the limit is varied through CPU affinity because runner.Run takes it from runtime.NumCPU()",
	)
	if l := os.Getenv("VERIF_LIMIT"); l != "" {
		want, _ := strconv.Atoi(l)
		if runtime.NumCPU() != want {
			fmt.Printf("INFRA: runtime.NumCPU()=%d but the shard was to run with %d CPUs\n", runtime.NumCPU(), want)
			os.Exit(3)
		}
	}
	ev.Main(m, run)
}

func exec(c rungraph.Case) (v ev.Verdict) {
	if c.Paths() > 4096 {
		return ev.Verdict{Skip: "too-many-paths"}
	}
	if c.HasCycle() {
		v.Classes = append(v.Classes, "cyclic")
	}
	o := rungraph.Execute(&c, 30*time.Second)
	L := o.Limit
	v.Classes = append(v.Classes, "mode:"+c.Pol.Mode, fmt.Sprintf("limit:%d", L))
	if o.Res.TimedOut {
		fmt.Printf("INCONCLUSIVE %+v\n%s\n", c, o.Res.Report)
		return ev.Verdict{Skip: "watchdog-inconclusive"}
	}
	if o.Res.Livelock {
		return ev.Failf("livelock", "%s", o.Res.Report)
	}
	if o.Res.Deadlock {
		return ev.Failf("deadlock", "the build does not complete with a limit of %d (slot leaked or held while waiting): %s", L, o.Res.Report)
	}
	if o.Panic != nil {
		return ev.Failf("panic", "runner.Run panicked: %v", o.Panic)
	}
	if o.OverLimitAt != "" {
		return ev.Failf("over-limit", "%s", o.OverLimitAt)
	}
	if !o.RunDone || o.RunErr != o.Outcome[c.Root] {
		return ev.Failf("wrong-run-result", "Run returned %v (done=%v), the requested target's outcome is %v", o.RunErr, o.RunDone, o.Outcome[c.Root])
	}
	widest := 0
	for i := range c.Nodes {
		for _, r := range c.Nodes[i].Reqs {
			seen := map[int]bool{}
			for _, d := range r {
				seen[d] = true
			}
			if len(seen) > widest {
				widest = len(seen)
			}
		}
	}
	if widest > L {
		v.NonTrivial = true
		v.Classes = append(v.Classes, "fan-wider-than-limit")
	}
	if L == 1 && c.Depth() >= 3 {
		v.NonTrivial = true
		v.Classes = append(v.Classes, "deep-at-limit-1")
	}
	if o.MaxActive == L {
		v.Classes = append(v.Classes, "limit-reached")
	}
	return v
}

func gen(t *rapid.T) rungraph.Case {
	L := runtime.NumCPU()
	max := L + 10
	if max < 8 {
		max = 8
	}
	if max > 28 {
		max = 28
	}
	wide := rapid.IntRange(0, 3).Draw(t, "wide") != 3
	nodes := rungraph.GenDAG(t, max, wide)
	for i := range nodes {
		nodes[i].Unknown = false
		if rapid.IntRange(0, 9).Draw(t, "unk") == 7 && i != 0 {
			nodes[i].Unknown = true
			nodes[i].Reqs = nil
		}
		nodes[i].Tolerant = rapid.IntRange(0, 2).Draw(t, "tolerant") == 2
	}
	// sometimes close a cycle: a back edge from a later node to an earlier one, requested first or last
	if len(nodes) >= 2 && rapid.IntRange(0, 3).Draw(t, "cycle") == 3 {
		from := rapid.IntRange(1, len(nodes)-1).Draw(t, "from")
		to := rapid.IntRange(0, from).Draw(t, "to")
		if !nodes[from].Unknown {
			if len(nodes[from].Reqs) == 0 || rapid.Bool().Draw(t, "ownreq") {
				nodes[from].Reqs = append([][]int{{to}}, nodes[from].Reqs...)
			} else {
				nodes[from].Reqs[0] = append(nodes[from].Reqs[0], to)
			}
		}
	}
	return rungraph.Case{Nodes: nodes, Root: 0, Pol: rungraph.GenPolicy(t, 3)}
}

func TestC09(t *testing.T) {
	ev.Explore(run, t, "slots", run.N(1200, 20000), gen, exec)
}
