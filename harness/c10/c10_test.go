package c10

import (
	"context"
	"fmt"
	"os"
	"reflect"
	"testing"
	"time"

	"github.com/pgavlin/dawn/internal/mvs"
	"github.com/pgavlin/dawn/verif/ev"
	"github.com/pgavlin/dawn/verif/mvssim"
	"pgregory.net/rapid"
)

var run *ev.Run

func TestMain(m *testing.M) {
	run = ev.Start("C10", "exploration",
		"rapid draws a universe (one repository - on an arbitrary host or, a third of the time, on a well-known hosting service -, 2-7 projects, 1-2 majors each as p and p@vN, up to 3n+2 tagged versions incl. pre-releases, every "+
			"tagged version with 0-3 requirements on arbitrary other tagged versions: diamonds, cycles, several majors) and 0-4 named root requirements, a fifth of them at a branch head (usually a pseudo-version). "+
			"Oracle: mvs.BuildList equals an independent reference (BFS over all reachable (path, version) nodes, semver maximum per path, each path once); "+
			"metamorphic: the same answer from a warm resolver, a new resolver on the warm cache directory, a cold cache directory, and with every "+
			"requirement name in the universe and the root renamed (which changes declaration/sort order); and, with an injected transient fetch failure of one "+
			"project, from the retry on the same resolver. Non-trivial = some selected version is not "+
			"a version the root requires directly, or the reachable graph has a cycle, or two majors of one project are selected. Distinct by case JSON.",
		"universes are served by a fake vcs.Repository through a verif-tagged dialer adapter; the download cache is a scratch directory",
	)
	ev.Main(m, run)
}

type Case struct {
	U    mvssim.Universe  `json:"u"`
	Root []mvssim.RootReq `json:"root"`
	Fail int              `json:"fail"` // project whose first fetch fails in the fault-injection pass (-1 = none)
	Race bool             `json:"race,omitempty"` // also resolve with two resolvers at once on one fresh cache
	Skew int              `json:"skew,omitempty"` // start of the second resolver, in half milliseconds
}

func hasCycle(u *mvssim.Universe, root []mvssim.RootReq) bool {
	color := map[int]int{}
	var visit func(i int) bool
	visit = func(i int) bool {
		switch color[i] {
		case 1:
			return true
		case 2:
			return false
		}
		color[i] = 1
		for _, r := range u.Tags[i].Reqs {
			if visit(r % len(u.Tags)) {
				return true
			}
		}
		color[i] = 2
		return false
	}
	for _, r := range root {
		if visit(r.Tag % len(u.Tags)) {
			return true
		}
	}
	return false
}

func exec(c Case) (v ev.Verdict) {
	defer func() {
		if r := recover(); r != nil {
			v = ev.Failf("panic", "panic: %v", r)
		}
	}()
	if len(c.U.Tags) == 0 {
		return ev.Verdict{Skip: "empty-universe"}
	}
	ctx := context.Background()
	u := &c.U
	cfg := u.RootConfig(c.Root)
	want, _ := u.RefBuildList(cfg.Requirements)

	cache1, _ := os.MkdirTemp("", "c10-cache-")
	defer os.RemoveAll(cache1)
	cache2, _ := os.MkdirTemp("", "c10-cache-")
	defer os.RemoveAll(cache2)

	repo := mvssim.NewRepo(u)
	res1 := mvs.NewResolver(cache1, repo.Dialer(), nil)
	strip := func(m map[string]string) map[string]string {
		out := map[string]string{}
		for k, val := range m {
			if k != "" {
				out[k] = val
			}
		}
		return out
	}
	got, err := mvs.BuildList(ctx, cfg, res1)
	if err != nil {
		return ev.Failf("buildlist-error", "BuildList failed: %v", err)
	}
	if rv, ok := got[""]; ok && rv != "" {
		return ev.Failf("root-entry", "root entry has version %q", rv)
	}
	got = strip(got)
	if !reflect.DeepEqual(got, want) {
		return ev.Failf("not-mvs", "BuildList = %v, reference (reachable, max per path) = %v", got, want)
	}
	// classification
	direct := map[string]string{}
	for _, r := range cfg.Requirements {
		direct[r.Path+"@"+r.Version] = r.Version
	}
	for p, ver := range want {
		if _, ok := direct[p+"@"+ver]; !ok {
			v.NonTrivial = true
			v.Classes = append(v.Classes, "indirect-selection")
			break
		}
	}
	if hasCycle(u, c.Root) {
		v.NonTrivial = true
		v.Classes = append(v.Classes, "cycle")
	}
	trimmed := map[string]int{}
	for p := range want {
		base := p
		for i := len(p) - 1; i >= 0 && p[i] != '/'; i-- {
			if p[i] == '@' {
				base = p[:i]
			}
		}
		trimmed[base]++
		if trimmed[base] == 2 {
			v.NonTrivial = true
			v.Classes = append(v.Classes, "two-majors")
		}
	}
	v.Classes = append(v.Classes, fmt.Sprintf("selected:%d", min(len(want), 6)))

	// warm memo
	got2, err := mvs.BuildList(ctx, cfg, res1)
	if err != nil || !reflect.DeepEqual(strip(got2), want) {
		return ev.Failf("warm-memo-differs", "second BuildList on the same resolver = %v (err %v), want %v", got2, err, want)
	}
	// warm disk, new resolver
	res2 := mvs.NewResolver(cache1, mvssim.NewRepo(u).Dialer(), nil)
	got3, err := mvs.BuildList(ctx, cfg, res2)
	if err != nil || !reflect.DeepEqual(strip(got3), want) {
		return ev.Failf("warm-disk-differs", "BuildList with a warm download cache = %v (err %v), want %v", got3, err, want)
	}
	// a transient fetch failure, then a retry on the same resolver (cold cache): the retry must give the
	// same answer (or fail again), never a shorter list
	if c.Fail >= 0 {
		cache3, _ := os.MkdirTemp("", "c10-cache-")
		defer os.RemoveAll(cache3)
		repo5 := mvssim.NewRepo(u)
		repo5.FailOnce = c.Fail % u.NProj
		res5 := mvs.NewResolver(cache3, repo5.Dialer(), nil)
		first, err1 := mvs.BuildList(ctx, cfg, res5)
		if err1 == nil && !reflect.DeepEqual(strip(first), want) {
			return ev.Failf("fault-wrong-list", "BuildList with a failing fetch returned %v without an error, want %v", first, want)
		}
		if err1 != nil {
			v.Classes = append(v.Classes, "fetch-fault-hit")
			second, err2 := mvs.BuildList(ctx, cfg, res5)
			if err2 == nil && !reflect.DeepEqual(strip(second), want) {
				return ev.Failf("retry-after-fault-differs", "after a transient fetch failure (%v) the retry on the same resolver returned %v, want %v", err1, strip(second), want)
			}
			if err2 != nil {
				// an error is not a build list: the statement does not say a resolver must recover
				v.Classes = append(v.Classes, "retry-still-fails")
			}
		}
	}
	// two processes (here: two resolvers) share one download cache and resolve at the same time, while
	// checkouts take a while: each must get the reference list (or an error), never a shorter one
	if c.Race {
		cache6, _ := os.MkdirTemp("", "c10-cache-")
		defer os.RemoveAll(cache6)
		type out struct {
			got map[string]string
			err error
		}
		ch := make(chan out, 2)
		for k := 0; k < 2; k++ {
			repo6 := mvssim.NewRepo(u)
			repo6.SlowFetch = 2 * time.Millisecond
			res6 := mvs.NewResolver(cache6, repo6.Dialer(), nil)
			delay := time.Duration(k*c.Skew) * 500 * time.Microsecond
			go func() {
				time.Sleep(delay)
				got, err := mvs.BuildList(ctx, cfg, res6)
				ch <- out{got, err}
			}()
		}
		for k := 0; k < 2; k++ {
			o := <-ch
			if o.err == nil && !reflect.DeepEqual(strip(o.got), want) {
				return ev.Failf("shared-cache-race", "two resolvers sharing one download cache: one returned %v without an error, want %v", strip(o.got), want)
			}
		}
		v.Classes = append(v.Classes, "concurrent-resolvers-on-one-cache")
	}
	// cold cache, renamed requirements everywhere
	repo4 := mvssim.NewRepo(u)
	repo4.NameSalt = "zz-"
	root4 := make([]mvssim.RootReq, len(c.Root))
	for i, r := range c.Root {
		root4[len(c.Root)-1-i] = mvssim.RootReq{Name: fmt.Sprintf("n%02d", len(c.Root)-i), Tag: r.Tag, Ref: r.Ref}
	}
	res4 := mvs.NewResolver(cache2, repo4.Dialer(), nil)
	got4, err := mvs.BuildList(ctx, u.RootConfig(root4), res4)
	if err != nil || !reflect.DeepEqual(strip(got4), want) {
		return ev.Failf("order-dependent", "BuildList after renaming all requirements (cold cache) = %v (err %v), want %v", got4, err, want)
	}
	return v
}

func TestC10(t *testing.T) {
	ev.Explore(run, t, "buildlist", run.N(600, 6000), func(rt *rapid.T) Case {
		u := mvssim.GenUniverse(rt)
		c := Case{U: u, Root: mvssim.GenRoot(rt, &u), Fail: -1}
		if rapid.IntRange(0, 3).Draw(rt, "race") == 3 {
			c.Race, c.Skew = true, rapid.IntRange(0, 8).Draw(rt, "skew")
		}
		if rapid.IntRange(0, 2).Draw(rt, "fault") == 2 {
			c.Fail = rapid.IntRange(0, 6).Draw(rt, "failproj")
		}
		return c
	}, exec)
}
