package c11

import (
	"context"
	"fmt"
	"os"
	"reflect"
	"sort"
	"strings"
	"testing"
	"time"

	"github.com/pgavlin/dawn/internal/mvs"
	"github.com/pgavlin/dawn/internal/project"
	"github.com/pgavlin/dawn/verif/ev"
	"github.com/pgavlin/dawn/verif/mvssim"
	"golang.org/x/mod/module"
	"golang.org/x/mod/semver"
	"pgregory.net/rapid"
)

var run *ev.Run

func TestMain(m *testing.M) {
	run = ev.Start("C11", "exploration",
		"rapid draws a universe (as C10; project names drawn from a tiny set so that generated requirement names collide), a root requirement set and "+
			"1-4 operations applied as the CLI does (config.Requirements = result): Tidy, UpgradeAll, Get(path[@major]@query), the default major sometimes spelled out (p@v1, p@v0), with query in "+
			"{exact version above/equal/below current, latest, upgrade, patch, >v, >=v, <v, <=v, prefix, tag ref, branch ref} for present and absent projects. "+
			"Oracle (relations of the statement; build lists by mvs.BuildList cross-checked with the reference): Tidy keeps the build list; an upgrade puts "+
			"the project at >= the version resolved by an independent query resolver and lowers or drops no other project; a downgrade leaves the project "+
			"at <= the requested version; UpgradeAll lowers nothing; names kept from the old map still name the same path and every old path that is "+
			"still required keeps all its names; no requirement path is lost to a name collision; applying the operation to its own result changes nothing. "+
			"Non-trivial = the operation changed the requirement map, or was a downgrade, or added a project whose generated name collided. Distinct by case JSON.",
		"prefix and branch queries: the resolved version is only required to be a version of the project (tagged or pseudo); relations are then checked against the version found in the result",
	)
	ev.Main(m, run)
}

type Op struct {
	Kind  string `json:"kind"` // tidy upgradeall get
	Path  int    `json:"path"` // index into universe paths (get)
	Query string `json:"query"`
	Spell int    `json:"spell,omitempty"` // 1, 2: the path is written with its default major spelled out (@v1, @v0)
	Ver   int    `json:"ver"`             // index into the path's tagged versions for version-bearing queries
}

type Case struct {
	U    mvssim.Universe  `json:"u"`
	Root []mvssim.RootReq `json:"root"`
	Ops  []Op             `json:"ops"`
}

func cmp(a, b string) int { return semver.Compare(a, b) }

func majorMatch(major, ver string) bool {
	m := semver.Major(ver)
	return major == m || major == "" && (m == "v0" || m == "v1")
}

// refResolve is the independent resolver for the unambiguous query kinds. ok=false means the
// reference does not decide this query (prefix, refs, pseudo fallbacks).
func refResolve(u *mvssim.Universe, bl map[string]string, p, query string) (ver string, ok bool, wantErr bool) {
	tags := u.TaggedVersions(p) // ascending
	latest := func() (string, bool) {
		var pre string
		for i := len(tags) - 1; i >= 0; i-- {
			if semver.Prerelease(tags[i]) == "" {
				return tags[i], true
			} else if pre == "" {
				pre = tags[i]
			}
		}
		if pre != "" {
			return pre, true
		}
		return "", false
	}
	pick := func(accept func(string) bool) (string, bool, bool) {
		for i := len(tags) - 1; i >= 0; i-- {
			if accept(tags[i]) {
				return tags[i], true, false
			}
		}
		return "", true, true
	}
	switch {
	case query == "" || query == "latest":
		v, ok := latest()
		return v, ok, false
	case query == "upgrade":
		v, ok := latest()
		if !ok {
			return "", false, false
		}
		if cur, has := bl[p]; has && cmp(v, cur) < 0 {
			return cur, true, false
		}
		return v, true, false
	case query == "patch":
		cur, has := bl[p]
		if !has {
			v, ok := latest()
			return v, ok, false
		}
		// as for latest, releases come first: a pre-release is chosen only when the current version is one
		// (otherwise "get p@patch" twice - absent, then present at its latest release - could not be idempotent)
		mm := semver.MajorMinor(cur)
		pre := ""
		for i := len(tags) - 1; i >= 0; i-- {
			if semver.MajorMinor(tags[i]) == mm && cmp(tags[i], cur) > 0 {
				if semver.Prerelease(tags[i]) == "" {
					return tags[i], true, false
				} else if pre == "" {
					pre = tags[i]
				}
			}
		}
		if pre != "" && semver.Prerelease(cur) != "" {
			return pre, true, false
		}
		return cur, true, false
	case strings.HasPrefix(query, ">="):
		return pick(func(v string) bool { return cmp(v, query[2:]) >= 0 })
	case strings.HasPrefix(query, ">"):
		return pick(func(v string) bool { return cmp(v, query[1:]) > 0 })
	case strings.HasPrefix(query, "<="):
		return pick(func(v string) bool { return cmp(v, query[2:]) <= 0 })
	case strings.HasPrefix(query, "<"):
		return pick(func(v string) bool { return cmp(v, query[1:]) < 0 })
	case semver.IsValid(query) && semver.Canonical(query) == query:
		return pick(func(v string) bool { return cmp(v, query) == 0 })
	case query == "main" || strings.HasPrefix(query, "br"):
		if v, ok := u.RefVersion(p, query); ok {
			return v, true, false
		}
		return "", true, true // no such ref
	}
	return "", false, false
}

type state struct {
	u     *mvssim.Universe
	res   *mvs.Resolver
	ctx   context.Context
	paths []string
	lastQ string // query part of the last get
}

func (s *state) buildList(reqs map[string]project.RequirementConfig) (map[string]string, string) {
	cfg := &project.Config{Name: "root", Requirements: reqs}
	got, err := mvs.BuildList(s.ctx, cfg, s.res)
	if err != nil {
		return nil, fmt.Sprintf("BuildList(%v) failed: %v", reqs, err)
	}
	delete(got, "")
	if want, ok := s.u.RefBuildList(reqs); ok && !reflect.DeepEqual(got, want) {
		return nil, fmt.Sprintf("BuildList(%v) = %v, reference %v", reqs, got, want)
	}
	return got, ""
}

func copyReqs(m map[string]project.RequirementConfig) map[string]project.RequirementConfig {
	out := map[string]project.RequirementConfig{}
	for k, v := range m {
		out[k] = v
	}
	return out
}

func (s *state) apply(op Op, reqs map[string]project.RequirementConfig) (map[string]project.RequirementConfig, string, error) {
	cfg := &project.Config{Name: "root", Requirements: copyReqs(reqs)}
	switch op.Kind {
	case "tidy":
		r, err := mvs.Tidy(s.ctx, cfg, s.res)
		return r, "", err
	case "upgradeall":
		r, err := mvs.UpgradeAll(s.ctx, cfg, s.res)
		return r, "", err
	default:
		p := s.paths[op.Path%len(s.paths)]
		q := op.Query
		if strings.Contains(q, "%v") {
			tags := s.u.TaggedVersions(p)
			q = strings.ReplaceAll(q, "%v", tags[op.Ver%len(tags)])
		}
		if strings.Contains(q, "%t") { // tag ref
			tags := s.u.TaggedVersions(p)
			dir := strings.TrimPrefix(project.TrimPathVersion(p), s.u.Addr()+"/")
			q = strings.ReplaceAll(q, "%t", dir+"/"+tags[op.Ver%len(tags)])
		}
		// the project may be spelled with its default major written out (p@v1, p@v0): the same project
		spelled := p
		if op.Spell > 0 && project.TrimPathVersion(p) == p {
			spelled = p + []string{"@v1", "@v0"}[(op.Spell-1)%2]
		}
		full := spelled
		if q != "" {
			full = spelled + "@" + q
		}
		s.lastQ = q
		r, err := mvs.Get(s.ctx, cfg, s.res, full)
		return r, full, err
	}
}

// applyWatched runs apply under a watchdog. Operations on these universes take
// milliseconds; one that has not returned after 30 s is retried once with 60 s before it
// is called a hang.
func (s *state) applyWatched(op Op, reqs map[string]project.RequirementConfig) (map[string]project.RequirementConfig, string, error, bool) {
	type out struct {
		r    map[string]project.RequirementConfig
		full string
		err  error
	}
	// wall-clock limits are no evidence on a busy machine: three attempts, the last one long enough
	// for a millisecond operation on a machine oversubscribed a thousand times
	limits := []time.Duration{30 * time.Second, 120 * time.Second, 300 * time.Second}
	if hangConfirmed {
		limits = []time.Duration{10 * time.Second} // while shrinking a confirmed hang
	}
	for _, limit := range limits {
		ch := make(chan out, 1)
		go func() {
			r, full, err := s.apply(op, reqs)
			ch <- out{r, full, err}
		}()
		select {
		case o := <-ch:
			return o.r, o.full, o.err, false
		case <-time.After(limit):
		}
	}
	hangConfirmed = true
	return nil, "", nil, true
}

var hangConfirmed bool

func names(m map[string]project.RequirementConfig, p string) []string {
	var out []string
	for n, r := range m {
		if r.Path == p {
			out = append(out, n)
		}
	}
	sort.Strings(out)
	return out
}

func exec(c Case) (v ev.Verdict) {
	defer func() {
		if r := recover(); r != nil {
			v = ev.Failf("panic", "panic: %v", r)
		}
	}()
	if len(c.U.Tags) == 0 {
		return ev.Verdict{Skip: "empty-universe"}
	}
	u := &c.U
	cache, _ := os.MkdirTemp("", "c11-cache-")
	defer os.RemoveAll(cache)
	s := &state{u: u, ctx: context.Background(), paths: u.Paths()}
	s.res = mvs.NewResolver(cache, mvssim.NewRepo(u).Dialer(), nil)

	reqs := u.RootConfig(c.Root).Requirements
	for n, op := range c.Ops {
		where := fmt.Sprintf("op %d (%s)", n, op.Kind)
		bl, msg := s.buildList(reqs)
		if msg != "" {
			return ev.Failf("buildlist", "%s: before: %s", where, msg)
		}
		res, full, err, hung := s.applyWatched(op, reqs)
		if hung {
			return ev.Failf("operation-hangs", "%s on %v has not returned after 30 s (nor after 120 s and 300 s on further attempts)", where, reqs)
		}
		if full != "" {
			where = fmt.Sprintf("op %d (get %s)", n, full)
		}
		v.Classes = append(v.Classes, "op:"+op.Kind)
		if os.Getenv("C11_DEBUG") != "" {
			fmt.Printf("DEBUG %s\n  reqs=%v\n  bl=%v\n  res=%v err=%v\n", where, reqs, bl, res, err)
		}

		var p, resolved string
		decided, wantErr := false, false
		if op.Kind == "get" {
			p = s.paths[op.Path%len(s.paths)]
			q := s.lastQ
			v.Classes = append(v.Classes, "query:"+queryClass(op.Query))
			if op.Spell > 0 && project.TrimPathVersion(p) == p {
				v.Classes = append(v.Classes, "default-major-spelled-out")
			}
			resolved, decided, wantErr = refResolve(u, bl, p, q)
		}
		if err != nil {
			if op.Kind == "get" && (wantErr || !decided) {
				v.Classes = append(v.Classes, "get-error-expected-or-undecided")
				continue // state unchanged
			}
			if cur, present := bl[p]; op.Kind == "get" && present && cmp(resolved, cur) < 0 && unsatisfiable(u, bl, p, resolved) {
				v.Classes = append(v.Classes, "unsatisfiable-downgrade-rejected")
				v.NonTrivial = true
				continue // state unchanged
			}
			return ev.Failf("op-error", "%s on %v failed: %v", where, reqs, err)
		}
		if wantErr {
			return ev.Failf("missing-error", "%s on %v succeeded with %v although no tagged version satisfies the query", where, reqs, res)
		}
		bl2, msg := s.buildList(res)
		if msg != "" {
			return ev.Failf("buildlist", "%s: after: %s", where, msg)
		}
		changed := !reflect.DeepEqual(res, reqs)
		if changed {
			v.NonTrivial = true
			v.Classes = append(v.Classes, "changed")
		}

		notLowered := func() string {
			for q, old := range bl {
				nw, has := bl2[q]
				if !has {
					return fmt.Sprintf("%s dropped from the build list (was %s)", q, old)
				}
				if cmp(nw, old) < 0 {
					return fmt.Sprintf("%s lowered from %s to %s", q, old, nw)
				}
			}
			return ""
		}

		switch op.Kind {
		case "tidy":
			if !reflect.DeepEqual(bl, bl2) {
				return ev.Failf("tidy-changes-buildlist", "%s: build list of %v is %v, after Tidy (%v) it is %v", where, reqs, bl, res, bl2)
			}
		case "upgradeall":
			if m := notLowered(); m != "" {
				return ev.Failf("upgradeall-lowers", "%s: %s\n before %v -> %v\n after  %v -> %v", where, m, reqs, bl, res, bl2)
			}
			// "contains the resolved version": every project of the new build list is at (or above)
			// the newest tagged version of its major
			for q, qv := range bl2 {
				newest := qv
				for _, tv := range u.TaggedVersions(q) {
					if semver.Major(tv) == semver.Major(qv) && cmp(tv, newest) > 0 {
						newest = tv
					}
				}
				if newest != qv {
					return ev.Failf("upgradeall-not-latest", "%s: after upgrading everything %s is at %s although %s is tagged\n before %v -> %v\n after  %v -> %v", where, q, qv, newest, reqs, bl, res, bl2)
				}
			}
		case "get":
			cur, present := bl[p]
			if !decided {
				// prefix query: the statement does not define the resolved version and it cannot
				// be read off the result reliably; only the generic relations below apply.
				v.Classes = append(v.Classes, "undecided-query")
				break
			}
			nv, has := bl2[p]
			switch {
			case !present:
				v.Classes = append(v.Classes, "get:add")
				if !has || cmp(nv, resolved) < 0 {
					return ev.Failf("add-missing", "%s: added project is at %q in the build list, want >= %s\n after %v -> %v", where, nv, resolved, res, bl2)
				}
				if m := notLowered(); m != "" {
					return ev.Failf("add-lowers", "%s: %s\n before %v -> %v\n after  %v -> %v", where, m, reqs, bl, res, bl2)
				}
				// no requirement lost to a name collision: every old path is still named
				for _, r := range reqs {
					if len(names(res, r.Path)) == 0 {
						return ev.Failf("name-collision-loses-requirement", "%s: requirement on %s disappeared (old %v, new %v)", where, r.Path, reqs, res)
					}
				}
				if len(names(res, p)) == 0 {
					return ev.Failf("add-not-required", "%s: no requirement names the added project (%v)", where, res)
				}
				for n := range res {
					if _, old := reqs[n]; !old && strings.Contains(n, "-") {
						v.Classes = append(v.Classes, "collision-suffix")
						v.NonTrivial = true
					}
				}
			case cmp(resolved, cur) > 0:
				v.Classes = append(v.Classes, "get:upgrade")
				if !has || cmp(nv, resolved) < 0 {
					return ev.Failf("upgrade-not-reached", "%s: upgrade to %s leaves %s at %q\n before %v -> %v\n after  %v -> %v", where, resolved, p, nv, reqs, bl, res, bl2)
				}
				if m := notLowered(); m != "" {
					return ev.Failf("upgrade-lowers", "%s: %s\n before %v -> %v\n after  %v -> %v", where, m, reqs, bl, res, bl2)
				}
			case cmp(resolved, cur) < 0:
				v.Classes = append(v.Classes, "get:downgrade")
				v.NonTrivial = true
				if !has && unsatisfiable(u, bl, p, resolved) {
					return ev.Failf("unsatisfiable-downgrade-drops-requirement",
						"%s: %s@%s cannot be selected (it is not loadable or requires a higher version of %s); instead of an error the requirement is dropped\n before %v -> %v\n after  %v -> %v",
						where, p, resolved, p, reqs, bl, res, bl2)
				}
				if !has || cmp(nv, resolved) > 0 {
					return ev.Failf("downgrade-not-reached", "%s: downgrade to %s leaves %s at %q\n before %v -> %v\n after  %v -> %v", where, resolved, p, nv, reqs, bl, res, bl2)
				}
			default:
				v.Classes = append(v.Classes, "get:same")
				if !reflect.DeepEqual(bl, bl2) {
					return ev.Failf("noop-get-changes", "%s: query resolves to the current version %s but the build list changed\n before %v -> %v\n after  %v -> %v", where, cur, reqs, bl, res, bl2)
				}
			}
		}

		// names: kept names name the same path; every old path still required keeps all its names
		// A name whose project is no longer required at all may be handed to a newly added
		// project (observed: Tidy on a requirement cycle keeps the other member of the cycle and
		// names it after its own project name). The statement only protects names of projects
		// that are still required, so this is counted, not raised.
		for n, old := range reqs {
			if nw, kept := res[n]; kept && nw.Path != old.Path && len(names(res, old.Path)) == 0 {
				v.Classes = append(v.Classes, "name-reused-after-drop")
			}
		}
		for _, old := range reqs {
			after := names(res, old.Path)
			if len(after) == 0 {
				continue
			}
			before := names(reqs, old.Path)
			for _, n := range before {
				if r, ok := res[n]; !ok || r.Path != old.Path {
					return ev.Failf("name-lost", "%s: path %s had names %v and now has %v", where, old.Path, before, after)
				}
			}
		}
		// versions in the result are canonical
		for n, r := range res {
			if !semver.IsValid(r.Version) || mvssim.CleanPath(r.Path) != r.Path {
				return ev.Failf("malformed-requirement", "%s: result requirement %q = %+v", where, n, r)
			}
		}
		// idempotence
		res2, _, err := s.apply(op, res)
		if err != nil {
			if op.Kind == "get" {
				q := s.lastQ
				r2, decided2, _ := refResolve(u, bl2, p, q)
				if !decided2 {
					// prefix / branch query: it resolves to the same version both times, which the
					// first application wrote into the requirement on p
					if r, ok := findPath(res, p); ok {
						r2, decided2 = r.Version, true
					}
				}
				if cur2, present := bl2[p]; decided2 && present && cmp(r2, cur2) < 0 && unsatisfiable(u, bl2, p, r2) {
					// the first application added or raised p; asking again is now an unsatisfiable downgrade
					v.Classes = append(v.Classes, "repeat-is-unsatisfiable-downgrade")
					reqs = res
					continue
				}
			}
			return ev.Failf("repeat-error", "%s: repeating the operation on its own result %v failed: %v", where, res, err)
		}
		if !reflect.DeepEqual(res2, res) {
			return ev.Failf("not-idempotent", "%s: repeating the operation changes the requirements\n first  %v\n second %v", where, res, res2)
		}
		reqs = res
	}
	return v
}

// unsatisfiable reports whether a strict downgrade of p to ver is impossible given the current
// build list bl: ver is not a tagged version whose configuration the reference knows, or its
// requirement closure demands a higher version of p itself, or a higher version of another
// project than the one currently selected (dawn's get only ever downgrades other projects).
func unsatisfiable(u *mvssim.Universe, bl map[string]string, p, ver string) bool {
	alone := map[string]project.RequirementConfig{"x": {Path: p, Version: ver}}
	sel, ok := u.RefBuildList(alone)
	if !ok || cmp(sel[p], ver) > 0 {
		return true
	}
	for q, qv := range sel {
		if cur, has := bl[q]; has && q != p && cmp(qv, cur) > 0 {
			return true
		}
	}
	return false
}

func findPath(m map[string]project.RequirementConfig, p string) (project.RequirementConfig, bool) {
	var ks []string
	for k := range m {
		ks = append(ks, k)
	}
	sort.Strings(ks)
	for _, k := range ks {
		if m[k].Path == p {
			return m[k], true
		}
	}
	return project.RequirementConfig{}, false
}

func queryClass(q string) string {
	switch {
	case q == "":
		return "none"
	case q == "%v":
		return "exact"
	case q == "%t":
		return "tagref"
	case strings.HasPrefix(q, "br") || q == "main":
		return "branch"
	case strings.Contains(q, "%v"):
		return q[:strings.Index(q, "%v")]
	}
	return q
}

// tag refs of sub-directory projects contain a "/" and cannot be spelled in path@query syntax, so refs are branches only
var queries = []string{"%v", "latest", "upgrade", "patch", "%v", ">%v", ">=%v", "<%v", "<=%v", "", "main", "br0", "v1.1", "v0.2", "%v", "br1", "v2.1"}

func genCase(t *rapid.T) Case {
	u := mvssim.GenUniverse(t)
	c := Case{U: u, Root: mvssim.GenRoot(t, &u)}
	n := rapid.IntRange(1, 4).Draw(t, "nops")
	for i := 0; i < n; i++ {
		switch rapid.IntRange(0, 5).Draw(t, "opkind") {
		case 4:
			c.Ops = append(c.Ops, Op{Kind: "tidy"})
		case 5:
			c.Ops = append(c.Ops, Op{Kind: "upgradeall"})
		default:
			c.Ops = append(c.Ops, Op{Kind: "get", Path: rapid.IntRange(0, 12).Draw(t, "path"), Query: rapid.SampledFrom(queries).Draw(t, "query"), Ver: rapid.IntRange(0, 7).Draw(t, "ver"), Spell: rapid.SampledFrom([]int{0, 0, 0, 1, 0, 2}).Draw(t, "spell")})
		}
	}
	_ = module.Version{}
	return c
}

// knownSelfConflict: downgrade to a version whose own closure requires a higher version of the same project.
var knownSelfConflict = Case{
	U: mvssim.Universe{NProj: 2, Tags: []mvssim.Tag{
		{Proj: 0, Version: "v1.0.1", Name: "lib"},
		{Proj: 1, Version: "v1.0.0", Name: "lib", Reqs: []int{0}, Names: []string{""}},
		{Proj: 0, Version: "v1.0.0", Name: "lib", Reqs: []int{1}, Names: []string{""}},
	}},
	Root: []mvssim.RootReq{{Name: "lib", Tag: 0}},
	Ops:  []Op{{Kind: "get", Path: 0, Query: "%v", Ver: 0}},
}

func TestC11(t *testing.T) {
	// regression: once a defect (fixed by "fix: fail a downgrade that cannot select the requested version")
	if v := exec(knownSelfConflict); v.Fail != "" && run.Replay == "" {
		run.Record(knownSelfConflict, v)
		run.Violation("ops", knownSelfConflict, v)
		t.Errorf("regression case fails: %s", v.Fail)
	}
	ev.Explore(run, t, "ops", run.N(500, 10000), genCase, exec)
}
