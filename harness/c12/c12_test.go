package c12

import (
	"fmt"
	"os"
	"path/filepath"
	"strconv"
	"strings"
	"testing"

	dawn "github.com/pgavlin/dawn"
	"github.com/pgavlin/dawn/label"
	"github.com/pgavlin/dawn/verif/ev"
	"go.starlark.net/starlark"
	"pgregory.net/rapid"
)

var run *ev.Run

func TestMain(m *testing.M) {
	run = ev.Start("C12", "exploration",
		"(a) every string over {a,b,:,/,.,@} up to length 6 (quick) / 7 (thorough) and every sequence of up to 5 / 6 tokens from {a, //, :, /, @v1, @v0, @v2, @, ., h/p} is parsed [exhaustive], plus rapid strings up to length 40 over a "+
			"wider alphabet and strings assembled from label fragments (kinds, major-version suffixes); each accepted label with a name or without a kind must re-parse from its printed form to the identical label, also after "+
			"RelativeTo(//, //a, //a/b); printed forms are grouped and each group must hold one distinct label. (b) every (package, path) with path over "+
			"{a,.,/} up to length 7/8 [exhaustive] and rapid paths ('..', absolute, repeated separators, odd bytes): sourceLabel/repoSourcePath and an "+
			"end-to-end target(sources=,generates=) load must reject or resolve inside the root. Non-trivial = accepted label with >=2 non-empty fields, "+
			"or a path containing '..' or a leading '/'. Distinct by case JSON.",
		"label alphabet for the exhaustive core is {a,b,:,/,.,@}",
		"end-to-end confinement paths are printable ASCII (they are spelled in a BUILD.dawn string literal)",
	)
	ev.Main(m, run)
}

type LabelCase struct {
	Raw      string `json:"raw"`
	Other    string `json:"other,omitempty"`    // another raw string whose label printed identically
	OtherPkg string `json:"otherpkg,omitempty"` // package it was resolved against ("" = not resolved)
}

func safeParse(s string) (l *label.Label, err error, panicked any) {
	defer func() {
		if r := recover(); r != nil {
			panicked = r
		}
	}()
	l, err = label.Parse(s)
	return
}

func inScope(l *label.Label) bool { return l.Name != "" || l.Kind == "" }

var pkgs = []string{"//", "//a", "//a/b", "//" + strings.Repeat("deep-package-name/", 9) + "end", "//" + strings.Repeat("x", 240)}

type canonEntry struct{ raw, pkg string }

var canon = map[string]canonEntry{}

func resolve(raw, pkg string) (*label.Label, bool) {
	l, err, p := safeParse(raw)
	if p != nil || err != nil {
		return nil, false
	}
	if pkg == "" {
		return l, true
	}
	r, err := l.RelativeTo(pkg)
	if err != nil {
		return nil, false
	}
	return r, true
}

func execLabel(c LabelCase) ev.Verdict {
	l, err, p := safeParse(c.Raw)
	if p != nil {
		return ev.Failf("parse-panic", "label.Parse(%q) panicked: %v", c.Raw, p)
	}
	if err != nil {
		return ev.Verdict{Classes: []string{"rejected"}}
	}
	v := ev.Verdict{Classes: []string{"accepted"}}
	n := 0
	for _, f := range []string{l.Kind, l.Project, l.Package, l.Name} {
		if f != "" {
			n++
		}
	}
	v.NonTrivial = n >= 2
	check := func(l *label.Label, what string) string {
		if !inScope(l) {
			return ""
		}
		s := l.String()
		l2, err, p := safeParse(s)
		if p != nil {
			return fmt.Sprintf("%s: Parse(String()=%q) panicked: %v", what, s, p)
		}
		if err != nil {
			return fmt.Sprintf("%s: printed form %q of %#v does not parse: %v", what, s, *l, err)
		}
		if *l2 != *l {
			return fmt.Sprintf("%s: %#v prints as %q which parses as %#v", what, *l, s, *l2)
		}
		return ""
	}
	if !inScope(l) {
		v.Classes = append(v.Classes, "kind-without-name")
	}
	if msg := check(l, "parsed"); msg != "" {
		v.Fail, v.Sig = msg, "print-parse"
		return v
	}
	for _, pkg := range pkgs {
		r, err := l.RelativeTo(pkg)
		if err != nil {
			continue
		}
		if msg := check(r, "resolved against "+pkg); msg != "" {
			v.Fail, v.Sig = msg, "print-parse-resolved"
			return v
		}
	}
	if c.Other != "" {
		// canonical printing: the other label printed identically, so it must be equal
		var mine *label.Label
		for _, pkg := range append([]string{""}, pkgs...) {
			m, ok := resolve(c.Raw, pkg)
			if !ok || !inScope(m) {
				continue
			}
			o, ok := resolve(c.Other, c.OtherPkg)
			if !ok || !inScope(o) {
				break
			}
			if m.String() == o.String() && *m != *o {
				mine = m
				v.Fail = fmt.Sprintf("printing is not canonical: %#v (from %q) and %#v (from %q resolved against %q) both print as %q",
					*mine, c.Raw, *o, c.Other, c.OtherPkg, m.String())
				v.Sig = "not-canonical"
				return v
			}
		}
	}
	// stable: what a caller does with a label it was handed (dawn's own callers set the kind and project of a
	// parsed label and walk its package upwards, in place) never changes what the text parses to later on
	orig := *l
	for _, pkg := range pkgs[:3] {
		if r, err := l.RelativeTo(pkg); err == nil {
			r.Kind, r.Project = "module", "elsewhere"
			for len(r.Package) > 2 && strings.Contains(r.Package[2:], "/") {
				r.Package = r.Package[:strings.LastIndexByte(r.Package, '/')]
			}
		}
	}
	l.Kind, l.Project, l.Package, l.Name = "module", "elsewhere", "//", "default"
	again, err, p := safeParse(c.Raw)
	if p != nil || err != nil {
		v.Fail, v.Sig = fmt.Sprintf("Parse(%q) succeeded once and then failed: %v %v", c.Raw, err, p), "parse-not-stable"
		return v
	}
	if *again != orig {
		v.Fail, v.Sig = fmt.Sprintf("Parse(%q) gave %#v, and after the caller had edited the label it was handed, %#v", c.Raw, orig, *again), "parse-not-stable"
		return v
	}
	return v
}

// nextLabelCase wraps an enumerator of raw strings, attaching the first earlier string whose
// (possibly resolved) label printed identically but differs.
func withCanon(raw string) LabelCase {
	c := LabelCase{Raw: raw}
	for _, pkg := range append([]string{""}, pkgs...) {
		m, ok := resolve(raw, pkg)
		if !ok || !inScope(m) {
			continue
		}
		key := m.String()
		if prev, seen := canon[key]; seen {
			o, ok := resolve(prev.raw, prev.pkg)
			if ok && *o != *m && c.Other == "" {
				c.Other, c.OtherPkg = prev.raw, prev.pkg
			}
		} else {
			canon[key] = canonEntry{raw, pkg}
		}
	}
	return c
}

func enumStrings(alphabet string, maxLen int) func() (string, bool) {
	idx := []int{}
	first := true
	return func() (string, bool) {
		if first {
			first = false
			return "", true
		}
		// increment
		i := len(idx) - 1
		for i >= 0 {
			idx[i]++
			if idx[i] < len(alphabet) {
				break
			}
			idx[i] = 0
			i--
		}
		if i < 0 {
			idx = append(idx, 0)
			for j := range idx {
				idx[j] = 0
			}
			if len(idx) > maxLen {
				return "", false
			}
		}
		b := make([]byte, len(idx))
		for j, k := range idx {
			b[j] = alphabet[k]
		}
		return string(b), true
	}
}

func TestC12Labels(t *testing.T) {
	maxLen := 6
	if !run.Quick() {
		maxLen = 7
	}
	// exhaustive core; shards split the space by index
	en := enumStrings("ab:/.@", maxLen)
	i := 0
	ev.Enumerate(run, t, "labels-exhaustive", func() (LabelCase, bool) {
		for {
			s, ok := en()
			if !ok {
				return LabelCase{}, false
			}
			i++
			c := withCanon(s) // canonical grouping needs every string, in every shard
			if i%run.NShards == run.Shard {
				return c, true
			}
		}
	}, execLabel)
	run.SetExhaustive(true)
	run.Extra("exhaustive_label_alphabet", "ab:/.@")
	run.Extra("exhaustive_label_maxlen", maxLen)

	// exhaustive over tokens: every sequence of up to 5 (quick) / 6 (thorough) tokens of the label
	// grammar, including versioned project names
	tokens := []string{"a", "//", ":", "/", "@v1", "@v0", "@v2", "@", ".", "h/p"}
	maxTok := 5
	if !run.Quick() {
		maxTok = 6
	}
	idx := []int{}
	j := 0
	ev.Enumerate(run, t, "labels-tokens", func() (LabelCase, bool) {
		for {
			// next sequence in length-lexicographic order
			k := len(idx) - 1
			for k >= 0 && idx[k] == len(tokens)-1 {
				idx[k] = 0
				k--
			}
			if k < 0 {
				idx = make([]int, len(idx)+1)
				if len(idx) > maxTok {
					return LabelCase{}, false
				}
			} else {
				idx[k]++
			}
			var b strings.Builder
			for _, x := range idx {
				b.WriteString(tokens[x])
			}
			j++
			c := withCanon(b.String())
			if j%run.NShards == run.Shard {
				return c, true
			}
		}
	}, execLabel)
	run.Extra("exhaustive_label_tokens", strings.Join(tokens, " "))
	run.Extra("exhaustive_label_max_tokens", maxTok)

	wide := []rune("ab:/.@-_ +*\\\x00é/:/:.")
	frags := []string{"a", "b", "//", ":", "/", ".", "..", "@", "@v1", "@v0", "@v2", "@v10", "v1", "host/proj", "+", "-", "_", " ", "source:", "target:", "é"}
	ev.Explore(run, t, "labels-random", run.N(30000, 150000), func(rt *rapid.T) LabelCase {
		var s string
		switch m := rapid.IntRange(0, 4).Draw(rt, "mode"); {
		case m == 0:
			s = rapid.String().Draw(rt, "any")
		case m == 4 && rapid.Bool().Draw(rt, "long"):
			// no length bound in the statement: long names, packages and chains of sub-packages
			seg := rapid.SampledFrom([]string{"sub-package", "a", "nested_dir.v2", "x"}).Draw(rt, "seg")
			k := rapid.SampledFrom([]int{8, 30, 100, 260, 1000}).Draw(rt, "seglen")
			long := strings.Repeat(seg+"/", k/len(seg)+1)
			s = rapid.SampledFrom([]string{"", "//", ":", "//a:", "h/p//"}).Draw(rt, "prefix") + long + rapid.SampledFrom([]string{"", ":t", ":" + strings.Repeat("n", k), "end:t"}).Draw(rt, "suffix")
		case m == 4:
			// fragments of the label grammar, so that multi-character tokens (major-version suffixes,
			// kinds) appear and repeat
			for _, f := range rapid.SliceOfN(rapid.SampledFrom(frags), 1, 10).Draw(rt, "frags") {
				s += f
			}
		default:
			s = rapid.StringOfN(rapid.RuneFrom(wide), 0, 40, -1).Draw(rt, "s")
		}
		return withCanon(s)
	}, execLabel)
}

// ---------------------------------------------------------------------------------------
// confinement

type PathCase struct {
	Pkg  string `json:"pkg"`
	Path string `json:"path"`
}

func inside(root, p string) bool {
	rel, err := filepath.Rel(root, p)
	if err != nil {
		return false
	}
	return rel != ".." && !strings.HasPrefix(rel, "../")
}

func execPathPure(c PathCase) (v ev.Verdict) {
	defer func() {
		if r := recover(); r != nil {
			v = ev.Failf("path-panic", "panic for pkg=%q path=%q: %v", c.Pkg, c.Path, r)
		}
	}()
	v.NonTrivial = strings.Contains(c.Path, "..") || strings.HasPrefix(c.Path, "/")
	root := "/r/o/o/t"
	rp, err := dawn.VerifRepoSourcePath(c.Pkg, c.Path)
	if err == nil {
		v.Classes = append(v.Classes, "gen-accepted")
		// as builtin_target resolves a generated file
		resolved := filepath.Join(root, filepath.Join(strings.Split(rp, "/")...))
		if !inside(root, resolved) {
			return ev.Failf("generates-escape", "repoSourcePath(%q,%q)=%q resolves to %q outside the root", c.Pkg, c.Path, rp, resolved)
		}
	} else {
		v.Classes = append(v.Classes, "gen-rejected")
	}
	l, err := dawn.VerifSourceLabel(c.Pkg, c.Path)
	if err == nil {
		v.Classes = append(v.Classes, "src-accepted")
		comps := label.Split(l.Package)[1:]
		resolved := filepath.Join(root, filepath.Join(comps...), l.Name)
		if !inside(root, resolved) {
			return ev.Failf("source-escape", "sourceLabel(%q,%q)=%v resolves to %q outside the root", c.Pkg, c.Path, l, resolved)
		}
		if l.Kind != "source" {
			return ev.Failf("source-kind", "sourceLabel(%q,%q)=%v is not of kind source", c.Pkg, c.Path, l)
		}
		// the label is a stable identity: it re-parses to itself (the statement exempts labels
		// with a kind and no name, e.g. the root directory itself: "source://")
		l2, perr := label.Parse(l.String())
		if !inScope(l) {
			v.Classes = append(v.Classes, "src-label-without-name")
		} else if perr != nil || *l2 != *l {
			return ev.Failf("source-label-unstable", "sourceLabel(%q,%q)=%#v prints %q which parses as %v (%v)", c.Pkg, c.Path, *l, l.String(), l2, perr)
		}
	} else {
		v.Classes = append(v.Classes, "src-rejected")
	}
	return v
}

var e2eDir string

func execPathE2E(c PathCase) (v ev.Verdict) {
	defer func() {
		if r := recover(); r != nil {
			// A crash of Load is neither an escape nor a rejection; C12 does not speak about it
			// (observed: generates=["."] panics in link()). Counted, not raised.
			v = ev.Verdict{Classes: []string{"e2e-load-panic"}, NonTrivial: v.NonTrivial}
		}
	}()
	v.NonTrivial = strings.Contains(c.Path, "..") || strings.HasPrefix(c.Path, "/")
	dir, err := os.MkdirTemp("", "c12-")
	if err != nil {
		return ev.Verdict{Skip: "mkdtemp"}
	}
	defer os.RemoveAll(dir)
	root := filepath.Join(dir, "root")
	// "<ROOT>" in a generated path stands for the absolute OS path of the project root (as a BUILD
	// file obtains it from path(":x") or os.getcwd())
	c.Path = strings.ReplaceAll(c.Path, "<ROOT>", root)
	pkgDir := filepath.Join(root, filepath.FromSlash(c.Pkg[2:]))
	os.MkdirAll(pkgDir, 0o755)
	os.WriteFile(filepath.Join(root, "dawn.toml"), []byte("name = \"t\"\n"), 0o644)
	for _, kind := range []string{"sources", "generates"} {
		build := fmt.Sprintf("def f():\n    pass\n\nt = target(name=\"t\", %s=[%s], function=f)\n", kind, strconv.Quote(c.Path))
		os.WriteFile(filepath.Join(pkgDir, "BUILD.dawn"), []byte(build), 0o644)
		os.RemoveAll(filepath.Join(root, ".dawn"))
		proj, err := dawn.Load(root, &dawn.LoadOptions{})
		if err != nil {
			v.Classes = append(v.Classes, kind+"-e2e-rejected")
			continue
		}
		v.Classes = append(v.Classes, kind+"-e2e-accepted")
		if kind == "sources" {
			for _, s := range proj.Sources() {
				if !inside(root, s) {
					return ev.Failf("source-escape-e2e", "target(sources=[%q]) in %s accepted; source path %q is outside root %q", c.Path, c.Pkg, s, root)
				}
			}
		}
		tl, _ := label.Parse(c.Pkg + ":t")
		tgt, err := proj.Target(tl)
		if err != nil {
			return ev.Failf("e2e-target-missing", "target %v missing after load: %v", tl, err)
		}
		av, _ := tgt.(starlark.HasAttrs).Attr(kind)
		it := av.(starlark.Iterable).Iterate()
		var x starlark.Value
		for it.Next(&x) {
			p := string(x.(starlark.String))
			if !inside(root, p) {
				it.Done()
				return ev.Failf(kind+"-escape-e2e", "target(%s=[%q]) in %s accepted; path %q is outside root %q", kind, c.Path, c.Pkg, p, root)
			}
		}
		it.Done()
		// nothing may have been created outside the root
		ents, _ := os.ReadDir(dir)
		if len(ents) != 1 && !strings.Contains(c.Path, root) {
			return ev.Failf("e2e-outside-write", "loading created files outside the root: %v", ents)
		}
	}
	return v
}

func TestC12Paths(t *testing.T) {
	maxLen := 7
	if !run.Quick() {
		maxLen = 8
	}
	type pc struct {
		pkg int
		s   string
	}
	en := enumStrings("a./", maxLen)
	cur, pk := "", 0
	started := false
	i := 0
	ev.Enumerate(run, t, "paths-exhaustive", func() (PathCase, bool) {
		for {
			if !started || pk == len(pkgs) {
				s, ok := en()
				if !ok {
					return PathCase{}, false
				}
				cur, pk, started = s, 0, true
			}
			c := PathCase{Pkg: pkgs[pk], Path: cur}
			pk++
			i++
			if i%run.NShards == run.Shard {
				return c, true
			}
		}
	}, execPathPure)
	run.Extra("exhaustive_path_alphabet", "a./")
	run.Extra("exhaustive_path_maxlen", maxLen)

	elems := []string{"..", ".", "a", "b", "", "...", "..a", "a..", " ", "\\", "//", "/", "../..", "c:", "~", "%2e%2e", "\x00", "é"}
	genPath := func(rt *rapid.T, ascii bool) PathCase {
		n := rapid.IntRange(1, 7).Draw(rt, "n")
		parts := make([]string, n)
		for i := range parts {
			parts[i] = rapid.SampledFrom(elems).Draw(rt, "el")
			if ascii && (parts[i] == "\x00" || parts[i] == "é") {
				parts[i] = "x"
			}
		}
		p := strings.Join(parts, "/")
		if rapid.IntRange(0, 3).Draw(rt, "abs") == 0 {
			p = "/" + p
		}
		return PathCase{Pkg: rapid.SampledFrom(pkgs).Draw(rt, "pkg"), Path: p}
	}
	ev.Explore(run, t, "paths-random", run.N(30000, 150000), func(rt *rapid.T) PathCase { return genPath(rt, false) }, execPathPure)
	rootForms := []string{"<ROOT>/a", "<ROOT>", "<ROOT>.out/gen", "<ROOT>-cache/x", "<ROOT>/../x", "<ROOT>x", "<ROOT>/./a/../b", "<ROOT>/..", "/<ROOT>/a", "<ROOT>//a", "<ROOT>_/a/../../y"}
	ev.Explore(run, t, "paths-e2e", run.N(1500, 8000), func(rt *rapid.T) PathCase {
		if rapid.IntRange(0, 5).Draw(rt, "rootform") == 4 {
			return PathCase{Pkg: rapid.SampledFrom(pkgs).Draw(rt, "pkg"), Path: rapid.SampledFrom(rootForms).Draw(rt, "rf")}
		}
		return genPath(rt, true)
	}, execPathE2E)
}
