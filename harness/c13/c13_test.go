package c13

import (
	"fmt"
	"sort"
	"strings"
	"testing"

	"github.com/pgavlin/dawn/verif/ev"
	"github.com/pgavlin/dawn/verif/projsim"
	"pgregory.net/rapid"
)

var run *ev.Run

func TestMain(m *testing.M) {
	projsim.MaybeChild()
	run = ev.Start("C13", "exploration",
		"rapid draws a project and a history as in C01 in which dry runs are inserted at generated points: right after edits, after failed builds, for "+
			"sub-target labels, right after an ordering-only dependency edge was removed from an up-to-date target, with sources made unreadable (so that the up-to-date check itself errors) and repaired again, and with a failing body armed for "+
			"the real build that follows. Oracle for every dry run (on a fresh Load): the execution "+
			"log gains no entry; the hash of every file of the tree and of .dawn/build (names and bytes) after Run equals the hash after Load; the set of "+
			"labels with TargetEvaluating equals that of a real build of a full copy of the same tree and state - identical when the real build succeeds, "+
			"and identical apart from targets downstream of the failing body when it fails. Metamorphic: the same history with the dry runs deleted "+
			"executes the same bodies in every real build. Non-trivial = a dry run in which >=1 target would execute and >=1 is up to date. "+
			"Distinct by case JSON.",
		"the load-time refresh of records is the baseline of the state comparison, so the comparison isolates the run",
	)
	ev.Main(m, run)
}

type Case struct {
	M   *projsim.Model `json:"m"`
	Ops []projsim.Op   `json:"ops"`
}

func setOf(xs []string) map[string]bool {
	m := map[string]bool{}
	for _, x := range xs {
		m[x] = true
	}
	return m
}

// play executes the history; when skipDry is set, dry runs are omitted. It returns the executed
// sets of the real builds in order and the first violation found.
func play(c Case, skipDry bool, v *ev.Verdict) (executed [][]string, fail *ev.Verdict) {
	sim, err := projsim.NewSim(c.M.Clone())
	if err != nil {
		return nil, &ev.Verdict{Skip: "mkdtemp"}
	}
	defer sim.Close()
	m := sim.M
	for n, op := range c.Ops {
		if !op.IsBuild() {
			sim.ApplyEdit(op)
			continue
		}
		live := m.Live()
		if len(live) == 0 {
			continue
		}
		id := live[op.T%len(live)]
		label := m.Label(id)
		where := fmt.Sprintf("op %d (build %s dry=%v always=%v fail=%v)", n, label, op.Dry, op.Always, op.Fail)
		if op.Kind == "build" && op.Index && skipDry {
			// the history without its dry runs: just the ordinary build
			res := sim.Build(projsim.BuildReq{Label: label})
			if res.Panic != "" {
				f := ev.Failf("panic", "%s: panic: %s", where, res.Panic)
				return nil, &f
			}
			ex := res.Executed()
			sort.Strings(ex)
			executed = append(executed, ex)
			continue
		}
		if op.Kind == "build" && op.Index {
			// One loaded Project (the REPL's run()): a dry run and then an ordinary build, without a reload
			// in between, against an ordinary build of a full copy: the same bodies execute.
			twin, err := sim.CloneFull()
			if err != nil {
				return nil, &ev.Verdict{Skip: "clone"}
			}
			want := twin.Build(projsim.BuildReq{Label: label})
			twin.Close()
			got := sim.Build(projsim.BuildReq{Label: label, DryRun: true, Always: op.Always, Steps: []projsim.Step{{Kind: "run", Real: true}}})
			if got.Panic != "" {
				f := ev.Failf("panic", "%s: panic: %s", where, got.Panic)
				return nil, &f
			}
			if got.LoadErr == "" && want.LoadErr == "" {
				a, b := got.Executed(), want.Executed()
				sort.Strings(a)
				sort.Strings(b)
				if strings.Join(a, " ") != strings.Join(b, " ") {
					f := ev.Failf("dry-run-changes-next-build", "%s: on one loaded project a dry run (always=%v) followed by an ordinary build executes %v; the ordinary build alone executes %v", where, op.Always, a, b)
					return nil, &f
				}
				v.Classes = append(v.Classes, "dry-then-real-on-one-project")
			}
			ex := got.Executed()
			sort.Strings(ex)
			executed = append(executed, ex)
			continue
		}
		if op.Dry && skipDry {
			continue
		}
		if op.Dry {
			// twin: what would a real build of this very tree and state do? (with the failure armed, if any)
			twin, err := sim.CloneFull()
			if err != nil {
				return nil, &ev.Verdict{Skip: "clone"}
			}
			for _, f := range op.Fail {
				twin.SetFail(m.Targets[live[f%len(live)]].Name(), true)
			}
			real := twin.Build(projsim.BuildReq{Label: label, Always: op.Always})
			twin.Close()

			dry := sim.Build(projsim.BuildReq{Label: label, Always: op.Always, DryRun: true})
			if dry.Panic != "" {
				f := ev.Failf("panic", "%s: panic: %s", where, dry.Panic)
				return nil, &f
			}
			if dry.LoadErr != "" {
				if real.LoadErr == "" {
					f := ev.Failf("dry-load-differs", "%s: dry run fails to load (%s) but the real build loads", where, dry.LoadErr)
					return nil, &f
				}
				continue
			}
			if len(dry.Log) > 0 {
				f := ev.Failf("dry-run-executed", "%s: the dry run executed bodies: %v", where, dry.Executed())
				return nil, &f
			}
			if dry.SnapLoad != dry.SnapRun {
				f := ev.Failf("dry-run-changed-state", "%s: project files or persisted build state changed during the dry run", where)
				return nil, &f
			}
			ds, rs := setOf(dry.EvaluatingSet(false)), setOf(real.EvaluatingSet(false))
			// targets downstream of a failed target in the real build
			failed := map[string]bool{}
			for _, e := range real.Events {
				if e.Kind == "Failed" {
					failed[e.Label] = true
				}
			}
			downstream := map[string]bool{}
			if len(failed) > 0 {
				for _, t := range m.Live() {
					for _, cl := range m.Closure(t) {
						if failed[m.Label(cl)] && cl != t {
							downstream[m.Label(t)] = true
						}
					}
				}
				// sources generated by a failed or downstream target are downstream too
				for _, t := range m.Live() {
					if m.Targets[t].Gen && (failed[m.Label(t)] || downstream[m.Label(t)]) {
						p := m.GenPath(t)
						dir, name := "", p
						if i := strings.LastIndexByte(p, '/'); i >= 0 {
							dir, name = p[:i], p[i+1:]
						}
						downstream["source://"+dir+":"+name] = true
					}
				}
			}
			for l := range rs {
				if !ds[l] {
					f := ev.Failf("dry-run-misses-target", "%s: the real build evaluates %s, the dry run does not report it (dry=%v real=%v)", where, l, keys(ds), keys(rs))
					return nil, &f
				}
			}
			for l := range ds {
				if !rs[l] && !(real.RunErr != "" && (downstream[l] || isDefaultOf(l, downstream, m))) {
					f := ev.Failf("dry-run-reports-extra-target", "%s: the dry run reports %s, the real build (err=%q) does not evaluate it (dry=%v real=%v)", where, l, real.RunErr, keys(ds), keys(rs))
					return nil, &f
				}
			}
			if (real.RunErr == "") != (dry.RunErr == "") && len(failed) == 0 {
				f := ev.Failf("dry-run-result-differs", "%s: dry run error %q, real build error %q", where, dry.RunErr, real.RunErr)
				return nil, &f
			}
			v.Classes = append(v.Classes, "dry")
			upToDate := false
			for _, e := range dry.Events {
				if e.Kind == "UpToDate" {
					upToDate = true
				}
			}
			if len(ds) > 0 && upToDate {
				v.NonTrivial = true
			}
			if len(failed) > 0 {
				v.Classes = append(v.Classes, "dry-before-failing-build")
			}
			continue
		}
		for _, f := range op.Fail {
			sim.SetFail(m.Targets[live[f%len(live)]].Name(), true)
		}
		res := sim.Build(projsim.BuildReq{Label: label, Always: op.Always})
		sim.ClearFails()
		if res.Panic != "" {
			f := ev.Failf("panic", "%s: panic: %s", where, res.Panic)
			return nil, &f
		}
		ex := res.Executed()
		sort.Strings(ex)
		executed = append(executed, ex)
	}
	return executed, nil
}

func isDefaultOf(l string, downstream map[string]bool, m *projsim.Model) bool {
	// "//pkg:default" depends on the package's default target
	if !strings.HasSuffix(l, ":default") {
		return false
	}
	pkg := strings.TrimSuffix(l, ":default")
	for _, t := range m.Live() {
		if m.Targets[t].Default && m.Pkgs[m.Targets[t].Pkg] == pkg && downstream[m.Label(t)] {
			return true
		}
	}
	return false
}

func keys(m map[string]bool) []string {
	var out []string
	for k := range m {
		out = append(out, k)
	}
	sort.Strings(out)
	return out
}

func exec(c Case) (v ev.Verdict) {
	if c.M == nil || len(c.M.Targets) == 0 {
		return ev.Verdict{Skip: "empty"}
	}
	with, fail := play(c, false, &v)
	if fail != nil {
		return *fail
	}
	without, fail := play(c, true, &ev.Verdict{})
	if fail != nil {
		return *fail
	}
	if len(with) != len(without) {
		return ev.Failf("harness", "different number of real builds with/without dry runs")
	}
	for i := range with {
		if strings.Join(with[i], " ") != strings.Join(without[i], " ") {
			return ev.Failf("dry-run-changes-next-build", "real build #%d executes %v in the history with dry runs and %v in the same history without them", i, with[i], without[i])
		}
	}
	return v
}

func gen(t *rapid.T) Case {
	m := projsim.GenModel(t, 7, false)
	for i := range m.Targets {
		// an optional output: declared, consumed by later targets, never written by the body
		if m.Targets[i].Gen && rapid.IntRange(0, 3).Draw(t, "genskip") == 3 {
			m.Targets[i].GenSkip = true
		}
	}
	n := rapid.IntRange(3, 10).Draw(t, "nops")
	ops := []projsim.Op{{Kind: "build", T: len(m.Targets) - 1, Dry: rapid.IntRange(0, 3).Draw(t, "firstdry") == 3}}
	for i := 0; i < n; i++ {
		switch rapid.IntRange(0, 9).Draw(t, "opclass") {
		case 0, 1, 2:
			if rapid.IntRange(0, 5).Draw(t, "unreadable") == 4 {
				// a source whose up-to-date check fails with an error (not "missing"), or its repair
				ops = append(ops, projsim.GenEdit(t, []string{"src-unreadable", "src-revert"}))
			} else {
				ops = append(ops, projsim.GenEdit(t, projsim.SemanticEdits()))
			}
		case 3:
			ops = append(ops, projsim.GenEdit(t, projsim.NoopEdits()))
		case 4, 5, 6:
			b := projsim.GenBuild(t, true, false, false)
			b.Dry = true
			ops = append(ops, b)
		default:
			b := projsim.GenBuild(t, true, false, false)
			if rapid.IntRange(0, 4).Draw(t, "oneproject") == 4 {
				// a dry run and an ordinary build on one loaded project
				b = projsim.Op{Kind: "build", T: b.T, Always: rapid.Bool().Draw(t, "dryalways"), Index: true}
			}
			ops = append(ops, b)
		}
	}
	if rapid.IntRange(0, 3).Draw(t, "pattern") == 3 {
		// a dry run right after a dependency edge was removed from an otherwise up-to-date target
		top := len(m.Targets) - 1
		ops = append(ops, projsim.Op{Kind: "ord-add", T: rapid.IntRange(0, 11).Draw(t, "pa"), I: rapid.IntRange(0, 11).Draw(t, "pi")})
		ops = append(ops, projsim.Op{Kind: "build", T: top})
		ops = append(ops, projsim.Op{Kind: "ord-del", T: rapid.IntRange(0, 3).Draw(t, "pd")})
		ops = append(ops, projsim.Op{Kind: "build", T: top, Dry: true})
		ops = append(ops, projsim.Op{Kind: "build", T: top})
	}
	return Case{M: m, Ops: ops}
}

func TestC13(t *testing.T) {
	ev.Explore(run, t, "dry", run.N(120, 2000), gen, exec)
}
