package c14

import (
	"fmt"
	"io/fs"
	"os"
	"path/filepath"
	"sort"
	"strings"
	"testing"

	"github.com/pgavlin/dawn/verif/ev"
	"github.com/pgavlin/dawn/verif/projsim"
	"pgregory.net/rapid"
)

var run *ev.Run

func TestMain(m *testing.M) {
	projsim.MaybeChild()
	run = ev.Start("C14", "exploration",
		"rapid draws a project and a history as in C01 with target and source additions and removals (a removed label is never re-created), and runs it "+
			"twice: once as is, once with garbage collections inserted at generated points, in both styles (full load + GC as the test helper does; "+
			"index-preferring load + GC as the CLI does), with stray files planted in temp/. Oracle: every build executes the same bodies in both runs; "+
			"right after a collection every target and source of the loaded project that had a record still has it, byte-identical; after a full-load "+
			"collection no record of a label that is no longer in the project remains; temp/ exists and is empty; nothing outside .dawn/build changed. "+
			"Non-trivial = a collection ran while a stale record was present and a build follows. Distinct by case JSON.",
		"for index-style collections 'exists' is what the index lists, so the removal clause is only checked for full-load collections",
	)
	ev.Main(m, run)
}

type Case struct {
	M   *projsim.Model `json:"m"`
	Ops []projsim.Op   `json:"ops"` // kinds: edits, build, gc (I: 0 full, 1 index)
}

func readState(root string) map[string]string {
	out := map[string]string{}
	dir := filepath.Join(root, ".dawn", "build")
	filepath.WalkDir(dir, func(p string, d fs.DirEntry, err error) error {
		if err != nil || d.IsDir() {
			return nil
		}
		data, _ := os.ReadFile(p)
		out[filepath.ToSlash(p[len(dir)+1:])] = string(data)
		return nil
	})
	return out
}

func outside(rel string) bool { return rel == ".dawn" || strings.HasPrefix(rel, ".dawn/") }

func play(c Case, withGC bool, v *ev.Verdict) (executed [][]string, fail *ev.Verdict) {
	sim, err := projsim.NewSim(c.M.Clone())
	if err != nil {
		return nil, &ev.Verdict{Skip: "mkdtemp"}
	}
	defer sim.Close()
	m := sim.M
	root := sim.Env.Root()
	staleBefore := false
	for n, op := range c.Ops {
		switch {
		case op.Kind == "gc":
			if !withGC {
				continue
			}
			style := "full"
			if op.I%2 == 1 {
				style = "index"
			}
			where := fmt.Sprintf("op %d (gc %s)", n, style)
			if _, err := os.Stat(filepath.Join(root, ".dawn", "build")); err != nil {
				continue // never loaded yet
			}
			// plant strays
			os.MkdirAll(filepath.Join(root, ".dawn", "build", "temp"), 0o755)
			os.WriteFile(filepath.Join(root, ".dawn", "build", "temp", "stray123"), []byte("{"), 0o644)
			before := readState(root)
			outBefore := projsim.HashTree(root, outside)
			res := sim.Build(projsim.BuildReq{GC: "before", NoRun: true, PreferIndex: style == "index", PathsFor: m.AllLabels()})
			if res.Panic != "" {
				f := ev.Failf("panic", "%s: panic: %s", where, res.Panic)
				return nil, &f
			}
			if res.LoadErr != "" {
				continue // the project does not load (e.g. a dependency was removed): nothing was collected
			}
			if res.GCErr != "" {
				f := ev.Failf("gc-error", "%s: GC failed: %s", where, res.GCErr)
				return nil, &f
			}
			after := readState(root)
			if outBefore != projsim.HashTree(root, outside) {
				f := ev.Failf("gc-touched-project-files", "%s: files outside .dawn/build changed", where)
				return nil, &f
			}
			// records of everything that exists
			liveRecords := map[string]bool{"index.json": true}
			for _, t := range m.Live() {
				labels := append([]string{m.Label(t)}, m.SourceLabels(t)...)
				if m.Targets[t].Default {
					labels = append(labels, m.Pkgs[m.Targets[t].Pkg]+":default")
				}
				for _, l := range labels {
					rp, known := res.RecordPaths[l]
					if !known {
						continue
					}
					liveRecords[rp] = true
					b, had := before[rp]
					a, has := after[rp]
					if had && !has {
						f := ev.Failf("gc-removed-live-record", "%s: the record %s of existing %s was removed", where, rp, l)
						return nil, &f
					}
					if had && a != b {
						f := ev.Failf("gc-changed-live-record", "%s: the record %s of %s changed:\n before %s\n after  %s", where, rp, l, b, a)
						return nil, &f
					}
				}
			}
			stale := 0
			for rp := range before {
				if !liveRecords[rp] && !strings.HasPrefix(rp, "temp/") {
					stale++
				}
			}
			if stale > 0 {
				staleBefore = true
				v.Classes = append(v.Classes, "gc-with-stale-records")
			}
			v.Classes = append(v.Classes, "gc:"+style)
			if style == "full" {
				for rp := range after {
					if !liveRecords[rp] {
						f := ev.Failf("gc-kept-dead-record", "%s: %s belongs to nothing in the project but survived the collection", where, rp)
						return nil, &f
					}
				}
			}
			for rp := range after {
				if strings.HasPrefix(rp, "temp/") {
					f := ev.Failf("gc-kept-temporary", "%s: stray temporary %s survived the collection", where, rp)
					return nil, &f
				}
			}
			if st, err := os.Stat(filepath.Join(root, ".dawn", "build", "temp")); err != nil || !st.IsDir() {
				f := ev.Failf("gc-removed-temp-dir", "%s: the temp directory itself was removed", where)
				return nil, &f
			}
		case op.IsBuild():
			live := m.Live()
			if len(live) == 0 {
				continue
			}
			id := live[op.T%len(live)]
			for _, fl := range op.Fail {
				sim.SetFail(m.Targets[live[fl%len(live)]].Name(), true)
			}
			var res projsim.BuildResult
			if op.Watch && !op.Dry {
				// on the history's long-lived Project (Reload + Run), as watch mode builds
				res = sim.WatchBuild(projsim.BuildReq{Label: m.Label(id), Always: op.Always})
				v.Classes = append(v.Classes, "build:watch-reload")
			} else {
				res = sim.Build(projsim.BuildReq{Label: m.Label(id), Always: op.Always, DryRun: op.Dry})
			}
			sim.ClearFails()
			if res.Panic != "" {
				f := ev.Failf("panic", "op %d: panic: %s", n, res.Panic)
				return nil, &f
			}
			ex := res.Executed()
			sort.Strings(ex)
			executed = append(executed, append([]string{fmt.Sprintf("#%d %s err=%v", n, m.Label(id), res.RunErr != "" || res.LoadErr != "")}, ex...))
			if staleBefore && withGC {
				v.NonTrivial = true
			}
		default:
			sim.ApplyEdit(op)
		}
	}
	return executed, nil
}

func exec(c Case) (v ev.Verdict) {
	if c.M == nil || len(c.M.Targets) == 0 {
		return ev.Verdict{Skip: "empty"}
	}
	with, fail := play(c, true, &v)
	if fail != nil {
		return *fail
	}
	without, fail := play(c, false, &ev.Verdict{})
	if fail != nil {
		return *fail
	}
	if len(with) != len(without) {
		return ev.Failf("harness", "different number of builds")
	}
	for i := range with {
		if strings.Join(with[i], " ") != strings.Join(without[i], " ") {
			return ev.Failf("gc-changes-build", "build %v: with collections it executes %v, without them %v", with[i][0], with[i][1:], without[i][1:])
		}
	}
	return v
}

var structural = []string{"target-add", "target-del", "src-add", "src-del", "dep-add", "dep-del", "target-del", "src-del", "const", "src-new", "dir-rename", "gen-del"}

func gen(t *rapid.T) Case {
	m := projsim.GenModel(t, 7, false)
	n := rapid.IntRange(4, 12).Draw(t, "nops")
	ops := []projsim.Op{{Kind: "build", T: len(m.Targets) - 1}}
	for i := 0; i < n; i++ {
		switch rapid.IntRange(0, 9).Draw(t, "opclass") {
		case 0, 1, 2, 3:
			ops = append(ops, projsim.GenEdit(t, structural))
		case 4, 5, 6:
			ops = append(ops, projsim.Op{Kind: "gc", I: rapid.IntRange(0, 1).Draw(t, "gcstyle")})
		default:
			b := projsim.GenBuild(t, true, true, false)
			b.Watch = rapid.IntRange(0, 2).Draw(t, "watch") == 2
			ops = append(ops, b)
		}
	}
	if rapid.IntRange(0, 3).Draw(t, "pattern") == 3 {
		// a watch session sees a target appear, builds it, and the state is collected by a process
		// that loads through the index
		top := rapid.IntRange(0, 11).Draw(t, "ptop")
		ops = append(ops, projsim.Op{Kind: "build", T: top, Watch: true})
		ops = append(ops, projsim.GenEdit(t, []string{"target-add", "src-add", "target-add"}))
		ops = append(ops, projsim.Op{Kind: "build", T: 11, Watch: true}, projsim.Op{Kind: "build", T: top, Watch: true})
		ops = append(ops, projsim.Op{Kind: "gc", I: 1})
	}
	ops = append(ops, projsim.GenBuild(t, false, false, false))
	return Case{M: m, Ops: ops}
}

func TestC14(t *testing.T) {
	ev.Explore(run, t, "gc", run.N(120, 2000), gen, exec)
}
