package c15

import (
	"bytes"
	"encoding/binary"
	"fmt"
	"os"
	"os/exec"
	"path/filepath"
	"runtime"
	"strconv"
	"strings"
	"testing"
	"time"

	dawn "github.com/pgavlin/dawn"
	"github.com/pgavlin/dawn/pickle"
	"github.com/pgavlin/dawn/verif/ev"
	"github.com/pgavlin/dawn/verif/projsim"
	"github.com/pgavlin/dawn/verif/starval"
	"go.starlark.net/starlark"
	"pgregory.net/rapid"
)

var run *ev.Run

func TestMain(m *testing.M) {
	projsim.MaybeChild()
	run = ev.Start("C15", "exploration",
		"(a) byte strings <= 4 KiB: rapid takes a valid encoding (values from the C07 generator, or a real target-function environment pickled by "+
			"dawn's own pickler) and applies 1-6 structured mutations (bit flip, byte := any opcode, truncation, splice of another encoding, operand "+
			"edit, insertion of an opcode), or draws raw opcode soup; thorough adds a coverage-guided native fuzz campaign from the same corpus. Each "+
			"input is decoded with the generic host unpickler and with dawn's environment unpickler. Oracle: Decode returns; either err != nil or the "+
			"value is non-nil and a cycle-safe walk finds no nil element and no panicking String/Type; no panic escapes; a watchdog reports a decode "+
			"that has not returned after 20 s. Inputs whose 4-byte declared string lengths exceed the input size are skipped and counted "+
			"(the statement bounds declared lengths by the input size). (b) a generated project is built, one target of the closure is made genuinely "+
			"stale by an edit, and its persisted record (or a source's) is corrupted: truncated at a generated offset, bytes flipped, its pickled stamp "+
			"mutated with the mutators of (a), replaced by opcode soup, by a valid pickle of a foreign value, or by type-confused JSON; then the project is "+
			"loaded and built in a child process - from a fresh load or, a quarter of the time, as a watch session (loaded while the record is intact, record corrupted, Reload twice, Run). Oracle: no panic; either Load or Run reports an error, or the stale target executes and all outputs equal a "+
			"from-scratch build - 'up to date' is a violation whatever the corrupted bytes say. Non-trivial = (a) the input decodes or passes >= 3 "+
			"opcodes before failing, (b) the corrupted record is still valid JSON. Distinct by case JSON.",
		"declared lengths are bounded by the input size (checked by an independent framing walker)",
	)
	ev.Main(m, run)
}

type Mut struct {
	Kind int `json:"k"` // 0 flip 1 setbyte 2 truncate 3 splice 4 insert-op 5 delete 6 operand
	Pos  int `json:"p"`
	Arg  int `json:"a"`
}

type Case struct {
	Seed  *starval.V `json:"seed,omitempty"`  // value whose encoding is mutated
	Prog  int        `json:"prog,omitempty"`  // index into envSeeds when Seed is nil (1-based)
	Other *starval.V `json:"other,omitempty"` // splice donor
	Raw   []byte     `json:"raw,omitempty"`   // raw input (soup or fuzz crasher); used when non-nil
	Muts  []Mut      `json:"muts,omitempty"`
}

var opcodes = []byte("(.012FIJKLMNPQRSTUVXabcd}eghijl]opqrst)uG\x80\x81\x82\x83\x84\x85\x86\x87\x88\x89\x8a\x8b\x8c\x8d\x8e\x8f\x90\x91\x92\x93\x94\x95\x96\x97\x98BC")

// envSeeds are encodings of real function environments.
var envSeeds [][]byte

const envProgram = `
K = 300
L = [1, 2, {"a": (1, 2.5, b"x")}]
def helper(x, y=K):
    return x + y
def make(n):
    def inner(z):
        return z + n + len(L)
    return inner
clo = make(7)
def t1(self, k=K):
    "doc"
    return helper(k) + clo(1)
t2 = lambda: [x for x in L if x]
`

func init() {
	thread := &starlark.Thread{Name: "seed"}
	globals, err := starlark.ExecFile(thread, "seed.star", envProgram, nil)
	if err != nil {
		panic(err)
	}
	for _, name := range []string{"t1", "t2", "clo", "helper"} {
		var buf bytes.Buffer
		if err := pickle.NewEncoder(&buf, dawn.VerifEnvPickler).Encode(globals[name]); err != nil {
			panic(err)
		}
		envSeeds = append(envSeeds, buf.Bytes())
	}
}

func (c Case) input() []byte {
	var b []byte
	switch {
	case c.Raw != nil:
		b = append([]byte{}, c.Raw...)
	case c.Seed != nil:
		v, _ := starval.Build(*c.Seed)
		enc, err := starval.Encode(v)
		if err != nil {
			return nil
		}
		b = enc
	case c.Prog > 0 && c.Prog <= len(envSeeds):
		b = append([]byte{}, envSeeds[c.Prog-1]...)
	}
	var donor []byte
	if c.Other != nil {
		v, _ := starval.Build(*c.Other)
		donor, _ = starval.Encode(v)
	}
	for _, m := range c.Muts {
		if len(b) == 0 {
			b = []byte{'.'}
		}
		p := m.Pos % len(b)
		switch m.Kind {
		case 0:
			b[p] ^= 1 << uint(m.Arg%8)
		case 1:
			b[p] = opcodes[m.Arg%len(opcodes)]
		case 2:
			b = b[:p]
		case 3:
			if len(donor) > 0 {
				q := m.Arg % len(donor)
				b = append(b[:p:p], append(append([]byte{}, donor[q:]...), b[p:]...)...)
			}
		case 4:
			b = append(b[:p:p], append([]byte{opcodes[m.Arg%len(opcodes)]}, b[p:]...)...)
		case 5:
			b = append(b[:p:p], b[p+1:]...)
		case 6:
			b[p] = byte(m.Arg)
		}
	}
	if len(b) > 4096 {
		b = b[:4096]
	}
	return b
}

// framing walks the opcode stream the way a pickle reader frames it, without building
// values. It reports the number of opcodes framed and whether a 4-byte declared length
// exceeds the remaining input.
func framing(b []byte) (ops int, oversize bool) {
	i := 0
	for i < len(b) {
		op := b[i]
		i++
		switch op {
		case 'h', 'K', 'C', 0x8c: // 1-byte operand (+ counted data for C and 0x8c)
			if i >= len(b) {
				return ops, false
			}
			n := int(b[i])
			i++
			if op == 'C' || op == 0x8c {
				i += n
			}
		case 'M':
			i += 2
		case 'J', 'j':
			i += 4
		case 'G':
			i += 8
		case 'X', 'B':
			if i+4 > len(b) {
				return ops, false
			}
			n := int(binary.LittleEndian.Uint32(b[i:]))
			i += 4
			if n > len(b)-i {
				return ops, true
			}
			i += n
		case 'I':
			for i < len(b) && b[i] != '\n' {
				i++
			}
			i++
		case '.':
			return ops + 1, false
		case '(', 0x94, 'N', 0x88, 0x89, ']', 'a', 'e', ')', 0x85, 0x86, 0x87, 't', '}', 'u', 0x8f, 0x90, 0x93, 0x81:
		default:
			return ops, false
		}
		if i > len(b) {
			return ops, false
		}
		ops++
	}
	return ops, false
}

type result struct {
	v     starlark.Value
	err   error
	panic any
}

func decodeWith(b []byte, u pickle.Unpickler) (res result, hung bool) {
	ch := make(chan result, 1)
	go func() {
		var r result
		defer func() {
			if p := recover(); p != nil {
				r.panic = p
			}
			ch <- r
		}()
		r.v, r.err = pickle.NewDecoder(bytes.NewReader(b), u).Decode()
	}()
	// 20 s for an input of a few KiB - or, sooner, 2 GiB of additional heap: a decoder that is stuck
	// building something exponential must not be allowed to eat the machine while the clock runs
	var m0 runtime.MemStats
	runtime.ReadMemStats(&m0)
	tick := time.NewTicker(100 * time.Millisecond)
	defer tick.Stop()
	deadline := time.After(20 * time.Second)
	for {
		select {
		case r := <-ch:
			return r, false
		case <-deadline:
			return result{}, true
		case <-tick.C:
			var m runtime.MemStats
			runtime.ReadMemStats(&m)
			if m.HeapAlloc > m0.HeapAlloc+(2<<30) {
				return result{}, true
			}
		}
	}
}

func execCase(c Case) ev.Verdict {
	b := c.input()
	if b == nil {
		return ev.Verdict{Skip: "seed-not-encodable"}
	}
	return execBytes(b)
}

func execBytes(b []byte) ev.Verdict {
	ops, oversize := framing(b)
	if oversize {
		return ev.Verdict{Skip: "declared-length-exceeds-input"}
	}
	var v ev.Verdict
	for i, u := range []pickle.Unpickler{starval.Unpickler, dawn.VerifEnvUnpickler, nil} {
		which := []string{"generic unpickler", "dawn environment unpickler", "no unpickler"}[i]
		res, hung := decodeWith(b, u)
		switch {
		case hung:
			return ev.Failf("hang", "Decode (%s) has not returned after 20 s (or allocated more than 2 GiB) on %d bytes %q", which, len(b), trunc(b))
		case res.panic != nil:
			return ev.Failf("panic", "Decode (%s) panicked: %v on %q", which, res.panic, trunc(b))
		case res.err == nil && res.v == nil:
			return ev.Failf("nil-nil", "Decode (%s) returned neither a value nor an error on %q", which, trunc(b))
		case res.err == nil:
			if i == 0 {
				v.Classes = append(v.Classes, "decodes")
				v.NonTrivial = true
			}
			if ok, why := starval.WellFormed(res.v); !ok {
				return ev.Failf("ill-formed", "Decode (%s) returned an ill-formed value (%s) on %q", which, why, trunc(b))
			}
			func() {
				defer func() {
					if p := recover(); p != nil {
						v = ev.Failf("ill-formed", "String() of the decoded value panicked: %v on %q", p, trunc(b))
					}
				}()
				_ = res.v.Type()
				if _, cyclic := res.v.(*starlark.List); !cyclic {
					_ = safeString(res.v)
				}
			}()
			if v.Fail != "" {
				return v
			}
		default:
			if i == 0 {
				v.Classes = append(v.Classes, "error")
			}
		}
	}
	if ops >= 3 {
		v.NonTrivial = true
		v.Classes = append(v.Classes, "ops>=3")
	}
	return v
}

func safeString(v starlark.Value) string {
	// String() of self-referential containers is handled by starlark itself; a heavily shared value
	// (a DAG that doubles at every level) has a string of exponential size and is not printed
	if unfolded(v, map[any]float64{}) > 200000 {
		return ""
	}
	return v.String()
}

type tupleKey struct {
	p *starlark.Value
	n int
}

// unfolded is the number of nodes of v counted once per path (the size of its printed form).
func unfolded(v starlark.Value, memo map[any]float64) float64 {
	var kids []starlark.Value
	var key any
	switch x := v.(type) {
	case *starlark.List:
		key = x
		for i := 0; i < x.Len(); i++ {
			kids = append(kids, x.Index(i))
		}
	case starlark.Tuple:
		kids = x
		if len(x) > 0 {
			key = tupleKey{&x[0], len(x)} // shared storage counts with its full size, computed once
		}
	case *starlark.Dict:
		key = x
		for _, it := range x.Items() {
			kids = append(kids, it[0], it[1])
		}
	case *starlark.Set:
		key = x
		it := x.Iterate()
		var e starlark.Value
		for it.Next(&e) {
			kids = append(kids, e)
		}
		it.Done()
	case *starval.Host:
		key = x
		if x.Payload != nil {
			kids = append(kids, x.Payload)
		}
	default:
		return 1
	}
	if key != nil {
		if n, ok := memo[key]; ok {
			return n
		}
		memo[key] = 1 // a cycle counts once
	}
	n := 1.0
	for _, k := range kids {
		if k != nil {
			n += unfolded(k, memo)
		}
	}
	if key != nil {
		memo[key] = n
	}
	return n
}

func trunc(b []byte) string {
	if len(b) > 120 {
		return string(b[:120]) + fmt.Sprintf("...(%d bytes)", len(b))
	}
	return string(b)
}

func genCase(t *rapid.T) Case {
	var c Case
	mode := rapid.IntRange(0, 9).Draw(t, "mode")
	opts := starval.GenOpts{MaxDepth: 3, BigProb: 0, Hosts: true, Refs: true}
	switch {
	case mode <= 4:
		v := starval.Gen(t, opts)
		c.Seed = &v
	case mode <= 7:
		c.Prog = rapid.IntRange(1, len(envSeeds)).Draw(t, "prog")
	default:
		n := rapid.IntRange(0, 24).Draw(t, "souplen")
		raw := make([]byte, n)
		for i := range raw {
			if rapid.IntRange(0, 3).Draw(t, "isop") != 3 {
				raw[i] = rapid.SampledFrom(opcodes).Draw(t, "op")
			} else {
				raw[i] = rapid.Byte().Draw(t, "b")
			}
		}
		c.Raw = raw
	}
	if rapid.IntRange(0, 3).Draw(t, "donor") == 2 {
		v := starval.Gen(t, opts)
		c.Other = &v
	}
	nm := rapid.IntRange(0, 6).Draw(t, "nmut")
	for i := 0; i < nm; i++ {
		c.Muts = append(c.Muts, Mut{
			Kind: rapid.SampledFrom([]int{1, 0, 4, 2, 6, 3, 5}).Draw(t, "mk"),
			Pos:  rapid.IntRange(0, 4095).Draw(t, "mp"),
			Arg:  rapid.IntRange(0, 255).Draw(t, "ma"),
		})
	}
	return c
}

func TestC15Decode(t *testing.T) {
	ev.Explore(run, t, "decode", run.N(8000, 250000), genCase, execCase)

	// every truncation of every environment seed and of a few value encodings (enumerated)
	type tc struct{ b []byte }
	var inputs [][]byte
	for _, s := range envSeeds {
		if run.Shard == 0 {
			for i := 0; i <= len(s) && i <= 4096; i++ {
				inputs = append(inputs, s[:i])
			}
		}
	}
	// well-formed pickles that hand the unpicklers objects of the wrong shape, incl. heavily shared ones
	j := 0
	ev.Enumerate(run, t, "wrong-shape", func() (Case, bool) {
		if run.Shard != 0 || j >= len(foreignPickles) {
			return Case{}, false
		}
		c := Case{Raw: append([]byte{}, foreignPickles[j]...)}
		j++
		return c, true
	}, execCase)
	i := 0
	ev.Enumerate(run, t, "truncations", func() (Case, bool) {
		if i >= len(inputs) {
			return Case{}, false
		}
		c := Case{Raw: append([]byte{}, inputs[i]...)}
		if c.Raw == nil {
			c.Raw = []byte{}
		}
		i++
		return c, true
	}, execCase)
}

// atoms are all opcodes of the pickle protocol (implemented or not) with canonical small operands;
// every program of up to three atoms (with and without a final STOP) is decoded: a bounded-exhaustive
// core of short inputs.
var atoms = []string{"(", ".", "\x94", "h\x00", "h\x01", "j\x00\x00\x00\x00", "N", "\x88", "\x89", "I7\n", "K\x01", "M\x01\x01", "J\x01\x00\x00\x00", "G\x00\x00\x00\x00\x00\x00\xf0?",
	"\x8c\x01a", "X\x01\x00\x00\x00b", "C\x01c", "B\x01\x00\x00\x00d", "]", "a", "e", ")", "\x85", "\x86", "\x87", "t", "}", "u", "\x8f", "\x90", "\x93", "\x81", "\x8c\x04dawn", "\x8c\x06Target", "\x8c\x08Function", "\x8c\x0cFunctionCode", "\x8c\x07Builtin", "\x8c\x05verif",
	// the opcodes of the pickle protocol that this decoder does not implement (they must stay errors, or
	// behave well if someone implements them): memo stores with small and gapped ids, protocol headers, stack ops...
	"q\x00", "q\x01", "q\x02", "r\x01\x00\x00\x00", "r\x03\x00\x00\x00", "p0\n", "p2\n", "g0\n", "g1\n", "h\x02", "j\x02\x00\x00\x00", "\x80\x02", "\x80\x04", "\x95\x00\x00\x00\x00\x00\x00\x00\x00",
	"0", "1", "2", "F1.5\n", "L7L\n", "S'a'\n", "T\x01\x00\x00\x00a", "U\x01a", "Va\n", "b", "cdawn\nTarget\n", "d", "l", "o", "i", "s", "R", "P", "Q", "\x82\x01", "\x8a\x01\x07", "\x8b\x01\x00\x00\x00\x07", "\x91", "\x92", "\x8d\x01\x00\x00\x00\x00\x00\x00\x00a", "\x8e\x01\x00\x00\x00\x00\x00\x00\x00a", "\x96\x01\x00\x00\x00\x00\x00\x00\x00a", "\x97", "\x98"}

func TestC15ShortPrograms(t *testing.T) {
	n := len(atoms)
	total := n + n*n + n*n*n
	i := -1
	ev.Enumerate(run, t, "short-programs", func() (Case, bool) {
		for {
			i++
			if i >= 2*total {
				return Case{}, false
			}
			if i%run.NShards != run.Shard {
				continue
			}
			k := i / 2
			var s string
			switch {
			case k < n:
				s = atoms[k]
			case k < n+n*n:
				k -= n
				s = atoms[k/n] + atoms[k%n]
			default:
				k -= n + n*n
				s = atoms[k/(n*n)] + atoms[(k/n)%n] + atoms[k%n]
			}
			if i%2 == 1 {
				s += "."
			}
			return Case{Raw: []byte(s)}, true
		}
	}, execCase)
	run.Extra("exhaustive_short_programs", 2*total)
}

// FuzzC15Decode is the coverage-guided target (thorough tier; also re-runs saved crashers).
func FuzzC15Decode(f *testing.F) {
	for _, s := range envSeeds {
		f.Add(s)
	}
	for _, s := range []string{".", "(.", "N.", "]\x94(K\x01K\x02e.", "}\x94(\x8c\x01aK\x01u.", "\x8f\x94(K\x01\x90.", "K\x01K\x02\x86.", "\x8c\x01m\x8c\x01n\x93)\x81.",
		"I12345678901234567890\n.", "Mff\xff.", "J\xff\xff\xff\xff.", "G\x00\x00\x00\x00\x00\x00\xf0\x7f.", "X\x01\x00\x00\x00a.", "B\x00\x00\x00\x00.", "h\x00.", "j\x00\x00\x00\x00.",
		"\x8c\x04dawn\x8c\x08Function\x93)\x81.", "\x8c\x04dawn\x8c\x0cFunctionCode\x93NNN\x87\x81.", "\x8c\x04dawn\x8c\x06Target\x93N\x85\x81.", "(((((t.", "]((e.", "}(Nu."} {
		f.Add([]byte(s))
	}
	f.Fuzz(func(t *testing.T, b []byte) {
		if len(b) > 4096 {
			return
		}
		if v := execBytes(b); v.Fail != "" {
			t.Fatalf("%s: %s", v.Sig, v.Fail)
		}
	})
}

// TestC15Fuzz runs the native fuzz campaign (thorough tier, shard 0 only) by re-invoking the
// test binary, and converts a crasher into a replay file.
func TestC15Fuzz(t *testing.T) {
	if run.Quick() || run.Shard != 0 || run.Replay != "" || os.Getenv("VERIF_RACE") != "" {
		t.Skip("native fuzzing runs in the thorough tier only")
	}
	secs := int(300 * run.Scale)
	cache, err := os.MkdirTemp("", "c15-fuzzcache-")
	if err != nil {
		t.Skip(err)
	}
	defer os.RemoveAll(cache)
	corpus := filepath.Join("testdata", "fuzz", "FuzzC15Decode")
	before := map[string]bool{}
	if ents, err := os.ReadDir(corpus); err == nil {
		for _, e := range ents {
			before[e.Name()] = true
		}
	}
	cmd := exec.Command(os.Args[0], "-test.run=^$", "-test.fuzz=^FuzzC15Decode$", "-test.fuzztime="+strconv.Itoa(secs)+"s",
		"-test.fuzzcachedir="+cache, "-test.parallel=8", "-test.timeout=0")
	cmd.Env = append(os.Environ(), "VERIF_OUT="+cache, "VERIF_SHARD=99")
	out, err := cmd.CombinedOutput()
	execs := 0
	for _, line := range strings.Split(string(out), "\n") {
		if i := strings.Index(line, "execs: "); i >= 0 {
			fmt.Sscanf(line[i:], "execs: %d", &execs)
		}
	}
	run.Extra("native_fuzz_execs", execs)
	run.Extra("native_fuzz_seconds", secs)
	if err == nil {
		return
	}
	// a crasher was written under testdata/fuzz/FuzzC15Decode
	ents, _ := os.ReadDir(corpus)
	found := false
	for _, e := range ents {
		if before[e.Name()] {
			continue
		}
		data, _ := os.ReadFile(filepath.Join(corpus, e.Name()))
		if b, ok := parseCorpusFile(data); ok {
			found = true
			c := Case{Raw: b}
			v := execCase(c)
			if v.Fail == "" {
				v = ev.Failf("fuzz-flaky", "native fuzzing reported a failure that does not reproduce: %q", trunc(b))
			}
			run.Record(c, v)
			run.Violation("decode", c, v)
			t.Errorf("fuzz crasher: %s", v.Fail)
		}
		os.Remove(filepath.Join(corpus, e.Name()))
	}
	if !found {
		tail := string(out)
		if len(tail) > 2000 {
			tail = tail[len(tail)-2000:]
		}
		t.Logf("fuzz run failed without a crasher (infrastructure): %v\n%s", err, tail)
		run.Extra("native_fuzz_infra_failure", true)
	}
}

func parseCorpusFile(data []byte) ([]byte, bool) {
	lines := strings.Split(string(data), "\n")
	if len(lines) < 2 || !strings.HasPrefix(lines[0], "go test fuzz v1") {
		return nil, false
	}
	l := strings.TrimSpace(lines[1])
	if !strings.HasPrefix(l, "[]byte(") || !strings.HasSuffix(l, ")") {
		return nil, false
	}
	s, err := strconv.Unquote(l[len("[]byte(") : len(l)-1])
	if err != nil {
		return nil, false
	}
	return []byte(s), true
}
