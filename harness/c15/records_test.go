package c15

import (
	"bytes"
	"encoding/base64"
	"encoding/json"
	"fmt"
	"os"
	"path/filepath"
	"strings"
	"testing"

	"github.com/pgavlin/dawn"
	"github.com/pgavlin/dawn/pickle"
	"github.com/pgavlin/dawn/verif/ev"
	"github.com/pgavlin/dawn/verif/projsim"
	"go.starlark.net/starlark"
	"pgregory.net/rapid"
)

// restructure edits a decoded function environment (a dict of plain values) the ways a record written by
// another version of dawn, or a hand-edited or damaged one, may differ from what this version writes: parts
// this version does not know, parts missing, parts of another type, parts that contain the environment
// itself. The result is pickled plainly; it decodes to the same dict.
func restructure(p []byte, sel, arg int) ([]byte, string, bool) {
	v, err := pickle.NewDecoder(bytes.NewReader(p), dawn.VerifEnvUnpickler).Decode()
	if err != nil {
		return nil, "", false
	}
	env, ok := v.(*starlark.Dict)
	if !ok {
		return nil, "", false
	}
	keys := env.Keys()
	var what string
	junk := []starlark.Value{starlark.None, starlark.MakeInt(arg), starlark.String("x"), starlark.Tuple{}, starlark.NewList(nil), starlark.NewDict(0), starlark.Bytes("b"), starlark.True}[arg%8]
	nested := func() *starlark.Dict {
		// some nested function's environment, if there is one
		if fv, found, _ := env.Get(starlark.String("function values")); found {
			if tup, ok := fv.(starlark.Tuple); ok {
				for _, e := range tup {
					if d, ok := e.(*starlark.Dict); ok {
						return d
					}
				}
			}
		}
		return nil
	}
	switch sel % 8 {
	case 0:
		env.SetKey(starlark.String([]string{"x", "annotations", "docstring", ""}[arg%4]), junk)
		what = "extra-part"
	case 1:
		if len(keys) == 0 {
			return nil, "", false
		}
		env.Delete(keys[arg%len(keys)])
		what = "part-missing"
	case 2:
		if len(keys) == 0 {
			return nil, "", false
		}
		env.SetKey(keys[(arg/8)%len(keys)], junk)
		what = "part-of-another-type"
	case 3:
		env.SetKey(starlark.String("function values"), starlark.Tuple{env})
		what = "contains-itself"
	case 4:
		env.SetKey(starlark.String("global values"), env)
		what = "contains-itself"
	case 5:
		if d := nested(); d != nil {
			d.SetKey(starlark.String("function values"), starlark.Tuple{d, env})
			what = "nested-contains-itself"
		} else {
			env.SetKey(starlark.String("free variables"), starlark.NewList([]starlark.Value{env}))
			what = "contains-itself"
		}
	case 6:
		if d := nested(); d != nil {
			d.SetKey(starlark.String("extra"), junk)
			what = "nested-extra-part"
		} else {
			env.SetKey(starlark.String("extra"), junk)
			what = "extra-part"
		}
	default:
		// all parts this version knows are gone
		for _, k := range keys {
			env.Delete(k)
		}
		env.SetKey(starlark.String("v2"), junk)
		what = "only-unknown-parts"
	}
	var buf bytes.Buffer
	if err := pickle.NewEncoder(&buf, nil).Encode(env); err != nil {
		return nil, "", false
	}
	return buf.Bytes(), what, true
}

// RecordCase: build a generated project, make one target genuinely stale, corrupt its
// persisted record, then load and build again.
type RecordCase struct {
	M      *projsim.Model `json:"m"`
	T      int            `json:"t"`      // selector of the target whose record is corrupted
	Source bool           `json:"source"` // corrupt the record of one of its source files instead
	Mode   int            `json:"mode"`   // 0 truncate, 1 flip bytes of the file, 2 mutate the pickled stamp, 3 soup stamp, 4 foreign valid pickle, 5 json type confusion
	Pos    int            `json:"pos"`
	Muts   []Mut          `json:"muts,omitempty"`
	Raw    []byte         `json:"raw,omitempty"`
	Watch  bool           `json:"watch,omitempty"` // corrupt under a loaded Project and reload it twice (watch mode) instead of loading afresh
}

// sharedDAG is the pickle of a doubling DAG: L0 = [], Li = [Li-1, Li-1] through the memo (8 bytes per
// level). It is tiny and well formed; anything that walks it path by path (printing it, for instance)
// takes 2^levels steps.
func sharedDAG(levels int) []byte {
	var b []byte
	var rec func(k int)
	rec = func(k int) {
		b = append(b, ']', 0x94) // EMPTY_LIST MEMOIZE: the list of nesting k has memo id k
		if k == levels {
			return
		}
		b = append(b, '(')
		rec(k + 1)
		b = append(b, 'h', byte(k+1), 'e') // BINGET of the child, APPENDS
	}
	rec(0)
	return b
}

// tupleDAG is the same for tuples, built bottom up: T0 = (), Ti = (Ti-1, Ti-1), every level fetched from the
// memo; the stack holds T0..Tn when it ends. Tuples are hashable: wrap is "key" (the DAG is the key of a
// dict), "set" (an element of a set), "frozenset", or "value" (the value under a small key).
func tupleDAG(levels int, wrap string) []byte {
	b := []byte{')', 0x94}
	for k := 1; k <= levels; k++ {
		b = append(b, 'h', byte(k-1), 'h', byte(k-1), 0x86, 0x94)
	}
	switch wrap {
	case "key":
		b = append(b, '}', '(', 'h', byte(levels), 'N', 'u')
	case "set":
		b = append(b, 0x8f, '(', 'h', byte(levels), 0x90)
	case "frozenset":
		b = append(b, '(', 'h', byte(levels), 0x91)
	default:
		b = append(b, '}', '(', 'K', 1, 'h', byte(levels), 'u')
	}
	return append(b, '.')
}

// wrongShape returns a pickle that hands dawn's unpickler an object of one of its classes whose
// arguments have the right count but the wrong shape, the offending one being a doubling DAG.
func wrongShape(class string, before, after int) []byte {
	b := []byte("\x8c\x04dawn\x8c")
	b = append(b, byte(len(class)))
	b = append(b, class...)
	b = append(b, 0x93, '(')
	for i := 0; i < before; i++ {
		b = append(b, 'N')
	}
	b = append(b, sharedDAG(60)...)
	for i := 0; i < after; i++ {
		b = append(b, 'N')
	}
	return append(b, 't', 0x81, '.')
}

func init() {
	for _, c := range []struct {
		class         string
		before, after int
	}{{"Function", 2, 0}, {"Function", 2, 1}, {"Function", 0, 2}, {"FunctionCode", 0, 2}, {"FunctionCode", 1, 1}, {"FunctionCode", 2, 0}, {"Builtin", 0, 0}, {"Builtin", 1, 0}, {"Builtin", 0, 1}, {"Iterable", 0, 1}, {"Iterable", 1, 0}, {"Target", 0, 0}, {"Recursion", 0, 0}} {
		foreignPickles = append(foreignPickles, wrongShape(c.class, c.before, c.after))
	}
	foreignPickles = append(foreignPickles, append(sharedDAG(60), '.'))
	for _, wrap := range []string{"value", "key", "set", "frozenset"} {
		foreignPickles = append(foreignPickles, tupleDAG(60, wrap), tupleDAG(12, wrap))
	}
}

var foreignPickles = [][]byte{[]byte("N."), []byte("K\x01."), []byte("]\x94."), []byte("}\x94."), []byte("\x8c\x01a."), []byte(")."), []byte("]\x94(K\x01K\x02e."),
	[]byte("}\x94(\x8c\x05names)\x8c\x04codeC\x00u."), []byte("\x8c\x04dawn\x8c\x08Function\x93NNN\x87\x81."), []byte("\x8c\x04dawn\x8c\x0cFunctionCode\x93)))\x87\x81.")}

func execRecord(c RecordCase) (v ev.Verdict) {
	if c.M == nil || len(c.M.Targets) == 0 {
		return ev.Verdict{Skip: "empty"}
	}
	model := c.M.Clone()
	for i := range model.Targets {
		model.Targets[i].Always = false
	}
	sim, err := projsim.NewSim(model)
	if err != nil {
		return ev.Verdict{Skip: "mkdtemp"}
	}
	defer sim.Close()
	m := sim.M
	live := m.Live()
	top := live[len(live)-1]
	r0 := sim.Build(projsim.BuildReq{Label: m.Label(top), PathsFor: m.AllLabels()})
	if !r0.OK() {
		return ev.Verdict{Skip: "initial-build-failed"}
	}
	cl := m.Closure(top)
	t := cl[c.T%len(cl)]
	// make t genuinely stale: change its body (for restructured records also not: the record then differs
	// from the current environment in nothing but the edit)
	stale := !(c.Mode == 6 && c.Pos%2 == 1)
	if stale {
		m.Targets[t].Salt += 1000
		sim.Sync()
	}

	label := m.Label(t)
	if c.Source {
		if sl := m.SourceLabels(t); len(sl) > 0 {
			label = sl[c.Pos%len(sl)]
		} else {
			c.Source = false
		}
	}
	rel, known := r0.RecordPaths[label]
	if !known {
		return ev.Verdict{Skip: "no-record"}
	}
	rp := filepath.Join(sim.Env.Root(), ".dawn", "build", filepath.FromSlash(rel))
	data, err := os.ReadFile(rp)
	if err != nil {
		return ev.Verdict{Skip: "no-record"}
	}
	var rec map[string]any
	json.Unmarshal(data, &rec)
	stamp, _ := rec["stamp"].(string)
	mutatePickle := func(p []byte) []byte {
		cc := Case{Raw: p, Muts: c.Muts}
		if len(cc.Muts) == 0 {
			cc.Muts = []Mut{{Kind: 0, Pos: c.Pos, Arg: 3}}
		}
		return cc.input()
	}
	var out []byte
	mode := c.Mode
	if c.Source && (mode == 2 || mode == 4 || mode == 6) {
		mode = 3
	}
	switch mode {
	case 0:
		out = data[:c.Pos%(len(data)+1)]
		v.Classes = append(v.Classes, "truncate")
	case 1:
		out = append([]byte{}, data...)
		for i, mu := range append([]Mut{{Pos: c.Pos, Arg: 1}}, c.Muts...) {
			if i > 3 {
				break
			}
			out[mu.Pos%len(out)] ^= byte(1 << uint(mu.Arg%8))
		}
		v.Classes = append(v.Classes, "flip")
	case 2:
		p, derr := base64.StdEncoding.DecodeString(stamp)
		if derr != nil || len(p) == 0 {
			return ev.Verdict{Skip: "stamp-not-base64"}
		}
		mp := mutatePickle(p)
		if _, oversize := framing(mp); oversize {
			return ev.Verdict{Skip: "declared-length-exceeds-input"}
		}
		rec["stamp"] = base64.StdEncoding.EncodeToString(mp)
		out, _ = json.Marshal(rec)
		v.Classes = append(v.Classes, "mutated-stamp")
	case 3:
		raw := c.Raw
		if len(raw) == 0 {
			raw = []byte("(((.")
		}
		if _, oversize := framing(raw); oversize {
			return ev.Verdict{Skip: "declared-length-exceeds-input"}
		}
		rec["stamp"] = base64.StdEncoding.EncodeToString(raw)
		out, _ = json.Marshal(rec)
		v.Classes = append(v.Classes, "soup-stamp")
	case 6:
		p, derr := base64.StdEncoding.DecodeString(stamp)
		if derr != nil || len(p) == 0 {
			return ev.Verdict{Skip: "stamp-not-base64"}
		}
		arg := 0
		if len(c.Muts) > 0 {
			arg = c.Muts[0].Arg
		}
		rp, what, ok := restructure(p, c.Pos/2, arg)
		if !ok {
			return ev.Verdict{Skip: "stamp-not-an-environment"}
		}
		rec["stamp"] = base64.StdEncoding.EncodeToString(rp)
		out, _ = json.Marshal(rec)
		v.Classes = append(v.Classes, "restructured-env:"+what)
	case 4:
		rec["stamp"] = base64.StdEncoding.EncodeToString(foreignPickles[c.Pos%len(foreignPickles)])
		out, _ = json.Marshal(rec)
		v.Classes = append(v.Classes, "foreign-pickle")
	default:
		alts := []string{`{"stamp": 5}`, `{"stamp": "!!!not base64!!!"}`, `[]`, `null`, `{"dependencies": {"x": 1}}`, `{"dependencies": null, "stamp": ""}`, `{"stamp": "` + stamp + `", "dependencies": {}}`, `{"rerun": "yes"}`, "\x00\x00", ``}
		out = []byte(alts[c.Pos%len(alts)])
		v.Classes = append(v.Classes, "json-confusion")
	}
	var js any
	if json.Unmarshal(out, &js) == nil {
		v.NonTrivial = true
	}
	where := fmt.Sprintf("record of %s corrupted (%s)", label, v.Classes[len(v.Classes)-1])
	var res projsim.BuildResult
	if c.Watch {
		// watch mode: the project is loaded while the record is still intact; the record is corrupted,
		// the same Project is reloaded twice (two file events) and, if the reload succeeds, built
		v.Classes = append(v.Classes, "watch-session")
		where += " under a loaded project that is then reloaded twice"
		res = sim.ChildBuild(projsim.BuildReq{Label: m.Label(top), NoRun: true, Steps: []projsim.Step{
			{Kind: "write", Path: ".dawn/build/" + rel, Data: out}, {Kind: "reload"}, {Kind: "reload"}, {Kind: "run"}}})
		for _, sr := range res.Steps {
			if sr.Err != "" && res.RunErr == "" {
				res.RunErr = sr.Err
			}
		}
	} else {
		if err := os.WriteFile(rp, out, 0o644); err != nil {
			return ev.Verdict{Skip: "write"}
		}
		// in a child process: a panic on a runner goroutine would otherwise take the harness down
		res = sim.ChildBuild(projsim.BuildReq{Label: m.Label(top)})
	}
	if res.ExitCode == -3 {
		return ev.Failf("record-hang", "%s: the process loading and building the project has not finished after 120 s", where)
	}
	if res.ExitCode != 0 {
		se := res.Stderr
		if len(se) > 300 {
			se = se[:300]
		}
		return ev.Failf("record-crash", "%s: the process loading and building the project died (status %d): %s", where, res.ExitCode, se)
	}
	if res.Panic != "" {
		return ev.Failf("record-panic", "%s: load or build panics: %s", where, res.Panic)
	}
	if res.LoadErr != "" || res.RunErr != "" {
		v.Classes = append(v.Classes, "reported-error")
		return v
	}
	// success: t is stale, so it must have executed, and the outputs must be right
	executed := false
	for _, l := range res.Executed() {
		if l == m.Label(t) {
			executed = true
		}
	}
	if !executed && stale {
		return ev.Failf("corrupt-record-up-to-date", "%s: the build succeeds and treats the stale target %s as up to date (executed: %v)", where, m.Label(t), res.Executed())
	}
	twin, products := sim.CleanBuild(projsim.BuildReq{Label: m.Label(top)})
	if !twin.OK() {
		return ev.Verdict{Skip: "twin-failed"}
	}
	for _, x := range cl {
		p := m.OutPath(x)
		if got, ok := sim.ReadFile(p); !ok || got != products[p] {
			return ev.Failf("corrupt-record-stale-output", "%s: the build succeeds but %s differs from a from-scratch build", where, p)
		}
	}
	v.Classes = append(v.Classes, "rebuilt")
	_ = strings.Contains
	return v
}

func genRecord(t *rapid.T) RecordCase {
	c := RecordCase{Watch: rapid.IntRange(0, 3).Draw(t, "watch") == 3, M: projsim.GenModel(t, 5, false), T: rapid.IntRange(0, 7).Draw(t, "t"), Mode: rapid.SampledFrom([]int{2, 0, 1, 3, 4, 5, 2, 2, 6, 6, 6}).Draw(t, "mode"),
		Pos: rapid.IntRange(0, 4095).Draw(t, "pos"), Source: rapid.IntRange(0, 5).Draw(t, "source") == 5}
	n := rapid.IntRange(0, 4).Draw(t, "nmut")
	for i := 0; i < n; i++ {
		c.Muts = append(c.Muts, Mut{Kind: rapid.SampledFrom([]int{1, 0, 4, 2, 6, 5}).Draw(t, "mk"), Pos: rapid.IntRange(0, 4095).Draw(t, "mp"), Arg: rapid.IntRange(0, 255).Draw(t, "ma")})
	}
	if c.Mode == 3 {
		n := rapid.IntRange(0, 16).Draw(t, "souplen")
		for i := 0; i < n; i++ {
			c.Raw = append(c.Raw, rapid.SampledFrom(opcodes).Draw(t, "op"))
		}
	}
	return c
}

func TestC15Records(t *testing.T) {
	ev.Explore(run, t, "records", run.N(120, 1500), genRecord, execRecord)
}
