package c16

import (
	"fmt"
	"testing"

	"github.com/pgavlin/dawn/diff"
	"github.com/pgavlin/dawn/verif/diffcheck"
	"github.com/pgavlin/dawn/verif/ev"
	"github.com/pgavlin/dawn/verif/projsim"
	"github.com/pgavlin/dawn/verif/starval"
	"go.starlark.net/starlark"
	"pgregory.net/rapid"
)

var run *ev.Run

func TestMain(m *testing.M) {
	projsim.MaybeChild()
	run = ev.Start("C16", "exploration",
		"rapid draws an old value (string, bytes, tuple, list, dict, set, scalars; nested to depth 3; lengths mostly 0-12, sometimes 100-300, in thorough "+
			"1500-3000) and derives new by 0-6 edits (insert, delete, replace, swap, nested edit, key add/remove/change, type change) or draws it "+
			"independently; all three length relations occur. Oracle: Diff==nil iff starlark.Equal; Old()/New() are the given values in the given order at "+
			"every nesting level; sequences are reconstructed by position from common/delete/add/replace edits (cursors must end at both lengths); mapping "+
			"edits are exactly the added/removed/changed keys with faithful payloads. Rebuild reason: generated projects are built, edited (constants, "+
			"bodies, helpers, flags, docstrings...) and rebuilt; for every TargetEvaluating that carries an environment diff the differing top-level "+
			"keys are computed independently from the diff's old and new environments (histories may rewrite a record in the format of an older dawn, so that a part exists on one side only), the reason must contain the name of every part that differs and of no part that is equal (no order or wording assumed), "+
			"and the attached diff must pass the same reconstruction oracle. Non-trivial = unequal pair containing a "+
			"sequence pair with both sides non-empty, or a rebuild with an environment diff. Distinct by case JSON.",
		"values are acyclic; sizes <= 3000",
	)
	ev.Main(m, run)
}

type Op struct {
	Sel  int       `json:"sel"`  // which container/string node (pre-order, modulo count)
	Kind int       `json:"kind"` // 0 insert 1 delete 2 replace 3 swap 4 append 5 prepend
	Pos  int       `json:"pos"`
	Val  starval.V `json:"val"`
}

type Case struct {
	Old starval.V  `json:"old"`
	Ops []Op       `json:"ops,omitempty"`
	New *starval.V `json:"new,omitempty"` // independent new value (when set, Ops are ignored)
}

func isSeqNode(d starval.V) bool {
	switch d.K {
	case "tuple", "list", "dict", "set", "str", "bytes":
		return true
	}
	return false
}

func countNodes(d starval.V) int {
	n := 0
	if isSeqNode(d) {
		n = 1
	}
	for _, e := range d.E {
		n += countNodes(e)
	}
	return n
}

func applyOp(d starval.V, idx *int, op Op) starval.V {
	if isSeqNode(d) {
		if *idx == 0 {
			*idx = -1
			return editNode(d, op)
		}
		*idx--
	}
	if len(d.E) == 0 {
		return d
	}
	out := d
	out.E = make([]starval.V, len(d.E))
	for i, e := range d.E {
		if *idx >= 0 {
			out.E[i] = applyOp(e, idx, op)
		} else {
			out.E[i] = e
		}
	}
	return out
}

func editNode(d starval.V, op Op) starval.V {
	out := d
	switch d.K {
	case "str", "bytes":
		b := append([]byte{}, contentOf(d)...)
		out.N = 0
		var ins []byte
		if op.Val.K == "str" || op.Val.K == "bytes" {
			ins = contentOf(op.Val)
		}
		if len(ins) == 0 {
			ins = []byte{'Z'}
		}
		if len(ins) > 3 {
			ins = ins[:3]
		}
		pos := 0
		if len(b) > 0 {
			pos = op.Pos % (len(b) + 1)
		}
		switch op.Kind {
		case 1:
			if pos < len(b) {
				b = append(b[:pos:pos], b[pos+1:]...)
			}
		case 2:
			if pos < len(b) {
				b[pos] = ins[0] ^ 1
			}
		case 3:
			if pos+1 < len(b) {
				b[pos], b[pos+1] = b[pos+1], b[pos]
			}
		case 4:
			b = append(b, ins...)
		case 5:
			b = append(append([]byte{}, ins...), b...)
		default:
			b = append(b[:pos:pos], append(append([]byte{}, ins...), b[pos:]...)...)
		}
		out.S = b
		return out
	case "dict":
		e := append([]starval.V{}, d.E...)
		np := len(e) / 2
		switch op.Kind {
		case 1, 3:
			if np > 0 {
				p := (op.Pos % np) * 2
				e = append(e[:p:p], e[p+2:]...)
			}
		case 2:
			if np > 0 {
				p := (op.Pos%np)*2 + 1
				e[p] = op.Val
			}
		default:
			e = append(e, starval.V{K: "int", I: fmt.Sprint(900000 + op.Pos)}, op.Val)
		}
		out.E = e
		return out
	default: // tuple list set
		e := append([]starval.V{}, d.E...)
		val := op.Val
		if d.K == "set" && !hashableDesc(val) {
			val = starval.V{K: "int", I: fmt.Sprint(op.Pos)}
		}
		pos := 0
		if len(e) > 0 {
			pos = op.Pos % (len(e) + 1)
		}
		switch op.Kind {
		case 1:
			if pos < len(e) {
				e = append(e[:pos:pos], e[pos+1:]...)
			} else if out.FA > 0 {
				out.FA--
			}
		case 2:
			if pos < len(e) {
				e[pos] = val
			}
		case 3:
			if pos+1 < len(e) {
				e[pos], e[pos+1] = e[pos+1], e[pos]
			}
		case 4:
			e = append(e, val)
		case 5:
			e = append([]starval.V{val}, e...)
		default:
			e = append(e[:pos:pos], append([]starval.V{val}, e[pos:]...)...)
		}
		out.E = e
		return out
	}
}

func hashableDesc(d starval.V) bool {
	switch d.K {
	case "list", "dict", "set", "host", "ref":
		return false
	case "tuple":
		for _, e := range d.E {
			if !hashableDesc(e) {
				return false
			}
		}
	}
	return true
}

func contentOf(d starval.V) []byte {
	if d.N <= len(d.S) {
		return d.S
	}
	out := make([]byte, d.N)
	for i := range out {
		if len(d.S) == 0 {
			out[i] = 'x'
		} else {
			out[i] = d.S[i%len(d.S)]
		}
	}
	return out
}

func (c Case) build() (starlark.Value, starlark.Value) {
	old, _ := starval.Build(c.Old)
	if c.New != nil {
		nv, _ := starval.Build(*c.New)
		return old, nv
	}
	d := c.Old
	for _, op := range c.Ops {
		n := countNodes(d)
		if n == 0 {
			break
		}
		idx := op.Sel % n
		d = applyOp(d, &idx, op)
	}
	nv, _ := starval.Build(d)
	return old, nv
}

func exec(c Case) (v ev.Verdict) {
	defer func() {
		if r := recover(); r != nil {
			v = ev.Failf("panic", "Diff panicked: %v", r)
		}
	}()
	old, nv := c.build()
	eq, err := starlark.Equal(old, nv)
	if err != nil {
		return ev.Verdict{Skip: "equal-error"}
	}
	d, err := diff.Diff(old, nv)
	if err != nil {
		return ev.Failf("diff-error", "Diff returned an error for comparable values: %v", err)
	}
	lo, ln := lenOf(old), lenOf(nv)
	switch {
	case lo < 0 || ln < 0:
		v.Classes = append(v.Classes, "len:n/a")
	case lo < ln:
		v.Classes = append(v.Classes, "len:old<new")
	case lo == ln:
		v.Classes = append(v.Classes, "len:old=new")
	default:
		v.Classes = append(v.Classes, "len:old>new")
	}
	if lo >= 100 || ln >= 100 {
		v.Classes = append(v.Classes, "long")
	}
	if lo >= 1500 && ln >= 1500 {
		v.Classes = append(v.Classes, "very-long")
	}
	v.Classes = append(v.Classes, "types:"+old.Type()+"/"+nv.Type())
	if eq {
		v.Classes = append(v.Classes, "equal")
		if d != nil {
			return ev.Failf("diff-of-equal", "Diff of equal values is not empty: %v", d)
		}
		return v
	}
	if d == nil {
		return ev.Failf("nil-diff-of-unequal", "Diff of unequal values %s and %s is empty", diffcheck.Trunc(old), diffcheck.Trunc(nv))
	}
	ck := &diffcheck.Checker{}
	if msg := ck.Faithful(d, old, nv, "$"); msg != "" {
		sig := "unfaithful"
		out := ev.Failf(sig, "%s\n old=%s\n new=%s\n diff=%s", msg, diffcheck.Trunc(old), diffcheck.Trunc(nv), diffcheck.Trunc(d))
		return out
	}
	v.NonTrivial = ck.SeqPairs > 0
	return v
}

func lenOf(v starlark.Value) int {
	switch v.(type) {
	case starlark.String, starlark.Bytes, starlark.Tuple, *starlark.List, *starlark.Dict, *starlark.Set:
		return v.(interface{ Len() int }).Len()
	}
	return -1
}

func genSeqRoot(t *rapid.T, o starval.GenOpts) starval.V {
	// roots are sequences or dicts most of the time
	kind := rapid.SampledFrom([]string{"tuple", "list", "str", "dict", "tuple", "list", "bytes", "str", "any"}).Draw(t, "rootk")
	var d starval.V
	switch kind {
	case "any":
		return starval.Gen(t, o)
	case "str", "bytes":
		n := rapid.IntRange(0, 12).Draw(t, "slen")
		b := make([]byte, n)
		for i := range b {
			b[i] = rapid.SampledFrom([]byte("abcab\n é")).Draw(t, "ch")
		}
		d = starval.V{K: kind, S: b}
	case "dict":
		n := rapid.IntRange(0, 6).Draw(t, "dn")
		for i := 0; i < n; i++ {
			d.E = append(d.E, starval.GenHashable(t, 2, o), starval.Gen(t, starval.GenOpts{MaxDepth: o.MaxDepth - 1}))
		}
		d.K = "dict"
	default:
		n := rapid.IntRange(0, 12).Draw(t, "tn")
		for i := 0; i < n; i++ {
			if rapid.IntRange(0, 3).Draw(t, "small") != 3 {
				d.E = append(d.E, starval.V{K: "int", I: fmt.Sprint(rapid.IntRange(0, 4).Draw(t, "iv"))})
			} else {
				d.E = append(d.E, starval.Gen(t, starval.GenOpts{MaxDepth: o.MaxDepth - 1}))
			}
		}
		d.K = kind
		if rapid.IntRange(0, 30).Draw(t, "longp") == 17 {
			d.FA = rapid.IntRange(100, 300).Draw(t, "fa")
			d.Base = rapid.SampledFrom([]int{0, 150}).Draw(t, "base")
		}
	}
	return d
}

func genCase(t *rapid.T) Case {
	o := starval.GenOpts{MaxDepth: 3}
	old := genSeqRoot(t, o)
	if rapid.IntRange(0, 5).Draw(t, "indep") == 4 {
		nv := genSeqRoot(t, o)
		return Case{Old: old, New: &nv}
	}
	nops := rapid.IntRange(0, 6).Draw(t, "nops")
	ops := make([]Op, nops)
	for i := range ops {
		ops[i] = Op{
			Sel:  rapid.IntRange(0, 20).Draw(t, "sel"),
			Kind: rapid.IntRange(0, 5).Draw(t, "kind"),
			Pos:  rapid.IntRange(0, 40).Draw(t, "pos"),
			Val:  starval.Gen(t, starval.GenOpts{MaxDepth: 1}),
		}
	}
	return Case{Old: old, Ops: ops}
}

func genLong(t *rapid.T) Case {
	// Two long sequences that are almost entirely dissimilar (evens against odds) with a few generated
	// matching elements: the edit-graph search overflows its route buffer after ~1414 rounds and
	// restarts on the remaining tails, and a match just past a restart point makes the pass after the
	// restart begin with the edit kind the pass before it ended with.
	n1 := rapid.IntRange(1450, 2600).Draw(t, "n1")
	n2 := rapid.IntRange(1450, 2600).Draw(t, "n2")
	kind := rapid.SampledFrom([]string{"tuple", "list"}).Draw(t, "k")
	mk := func(n, parity int, matches map[int]int) starval.V {
		e := make([]starval.V, n)
		for i := range e {
			v := 2*i + parity
			if m, ok := matches[i]; ok {
				v = m
			}
			e[i] = starval.V{K: "int", I: fmt.Sprint(v)}
		}
		return starval.V{K: kind, E: e}
	}
	matches := map[int]int{}
	nm := rapid.IntRange(0, 6).Draw(t, "nmatch")
	for i := 0; i < nm; i++ {
		// new[p+d] = old[p]; positions cluster around the restart point
		var p int
		if rapid.Bool().Draw(t, "near") {
			p = rapid.IntRange(1395, 1435).Draw(t, "pnear")
		} else {
			p = rapid.IntRange(0, n1-1).Draw(t, "pany")
		}
		d := rapid.IntRange(-2, 2).Draw(t, "delta")
		if p < n1 && p+d >= 0 && p+d < n2 {
			matches[p+d] = 2 * p
		}
	}
	old := mk(n1, 0, nil)
	nv := mk(n2, 1, matches)
	if rapid.IntRange(0, 4).Draw(t, "plain") == 4 {
		// the old shape as well: two ranges with a generated overlap
		shift := rapid.SampledFrom([]int{0, 1, 700, 1400, 3000, 5000}).Draw(t, "shift")
		old = starval.V{K: kind, FA: n1, Base: 0}
		nv = starval.V{K: kind, FA: n2, Base: shift}
	}
	return Case{Old: old, New: &nv}
}

// restartCase: evens against odds, n elements each, with the single match new[p+d] = old[p].
func restartCase(n, p, d int, kind string) Case {
	mk := func(parity int, at, val int) starval.V {
		e := make([]starval.V, n)
		for i := range e {
			v := 2*i + parity
			if i == at {
				v = val
			}
			e[i] = starval.V{K: "int", I: fmt.Sprint(v)}
		}
		return starval.V{K: kind, E: e}
	}
	old := mk(0, -1, 0)
	nv := mk(1, p+d, 2*p)
	return Case{Old: old, New: &nv}
}

// TestC16Restart enumerates single matches around the point where the edit-graph search
// restarts (its route buffer holds 2 000 000 points, i.e. ~1414 rounds on dissimilar input).
func TestC16Restart(t *testing.T) {
	type pd struct{ p, d int }
	var all []pd
	for p := 1404; p <= 1424; p++ {
		for d := -1; d <= 2; d++ {
			all = append(all, pd{p, d})
		}
	}
	stride := 1
	if run.Quick() {
		stride = 1
	}
	i := -1
	ev.Enumerate(run, t, "restart", func() (Case, bool) {
		for {
			i++
			if i >= len(all) {
				return Case{}, false
			}
			if i%run.NShards != run.Shard || (i/run.NShards+int(run.Seed))%stride != 0 {
				continue
			}
			return restartCase(1600, all[i].p, all[i].d, "tuple"), true
		}
	}, exec)
}

func TestC16(t *testing.T) {
	ev.Explore(run, t, "diff", run.N(15000, 120000), genCase, exec)
	ev.Explore(run, t, "long", run.N(6, 60), genLong, exec)
}
