package c16

import (
	"fmt"
	"sort"
	"strings"
	"testing"

	"github.com/pgavlin/dawn/verif/ev"
	"github.com/pgavlin/dawn/verif/projsim"
	"pgregory.net/rapid"
)

// ReasonCase: build a generated project, apply edits that change function environments,
// rebuild; every TargetEvaluating that carries an environment diff is checked.
type ReasonCase struct {
	M   *projsim.Model `json:"m"`
	Ops []projsim.Op   `json:"ops"`
}

// reasonNames checks, without assuming an order or a wording, that the reason names every part
// that differs and no part that does not: every differing part's name occurs in the text, and
// once those are taken out no name of an equal part does.
func reasonNames(text string, differ, same []string) string {
	rest := text
	byLen := append([]string(nil), differ...)
	sort.Slice(byLen, func(i, j int) bool { return len(byLen[i]) > len(byLen[j]) })
	for _, k := range byLen {
		if !strings.Contains(rest, k) {
			return fmt.Sprintf("%q differs but is not named", k)
		}
		rest = strings.Replace(rest, k, "\x00", 1)
	}
	for _, k := range same {
		if strings.Contains(rest, k) {
			return fmt.Sprintf("%q is named but does not differ", k)
		}
	}
	return ""
}

func execReason(c ReasonCase) (v ev.Verdict) {
	if c.M == nil || len(c.M.Targets) == 0 {
		return ev.Verdict{Skip: "empty"}
	}
	sim, err := projsim.NewSim(c.M.Clone())
	if err != nil {
		return ev.Verdict{Skip: "mkdtemp"}
	}
	defer sim.Close()
	m := sim.M
	live := m.Live()
	top := m.Label(live[len(live)-1])
	if r := sim.Build(projsim.BuildReq{Label: top}); r.Panic != "" {
		return ev.Failf("panic", "first build panics: %s", r.Panic)
	}
	for n, op := range c.Ops {
		if op.Kind == "old-record" {
			// the record of a target as an older dawn wrote it (function objects without the
			// "parameters" part): the next build compares environments of two formats
			live := m.Live()
			if len(live) > 0 && sim.OldFormatRecord(live[op.T%len(live)]) {
				v.Classes = append(v.Classes, "record-in-older-format")
			}
			continue
		}
		if !op.IsBuild() {
			sim.ApplyEdit(op)
			continue
		}
		live := m.Live()
		if op.Crash != "" {
			// the build is killed at a named point (in or around a body, while a record is written): the next
			// build finds whatever records that left and must still name exactly the parts that differ
			if len(live) > 0 {
				sim.ChildBuild(projsim.BuildReq{Label: m.Label(live[op.T%len(live)]), CrashSite: op.Crash, CrashHit: op.CrashHit})
				sim.SkipLog()
				v.Classes = append(v.Classes, "after-interrupted-build")
			}
			continue
		}
		var twinEvents []projsim.Event
		if op.Always {
			// a forced build: what differs is taken from an ordinary build of a full copy of tree and state
			if twin, err := sim.CloneFull(); err == nil {
				twinEvents = twin.Build(projsim.BuildReq{Label: m.Label(live[op.T%len(live)])}).Events
				twin.Close()
			}
		}
		res := sim.Build(projsim.BuildReq{Label: m.Label(live[op.T%len(live)]), Always: op.Always})
		if res.Panic != "" {
			return ev.Failf("panic", "op %d: build panics: %s", n, res.Panic)
		}
		for _, te := range twinEvents {
			if te.Kind != "Evaluating" || !te.HasDiff || len(te.DiffKeys) == 0 {
				continue
			}
			for _, e := range res.Events {
				if e.Kind == "Evaluating" && e.Label == te.Label {
					v.Classes = append(v.Classes, "forced-build-with-changed-environment")
					if why := reasonNames(e.Text, te.DiffKeys, te.SameKeys); why != "" {
						return ev.Failf("reason-mismatch", "op %d (forced build): %s is re-evaluated with reason %q; the parts of its environment that differ are %v: %s", n, e.Label, e.Text, te.DiffKeys, why)
					}
				}
			}
		}
		for _, e := range res.Events {
			if e.Kind != "Evaluating" {
				continue
			}
			if !e.HasDiff {
				// generated projects hold no self-referential data, so a changed environment can always be
				// diffed: the reason must name the parts, never fall back to a generic text
				if e.Text == "environment changed" {
					return ev.Failf("reason-generic", "op %d: %s is re-evaluated because its environment changed, but the reason %q does not name the parts that differ", n, e.Label, e.Text)
				}
				continue
			}
			if e.Unwalkable {
				continue // cannot happen for generated environments; nothing was inspected
			}
			v.Classes = append(v.Classes, fmt.Sprintf("diffkeys:%d", len(e.DiffKeys)))
			v.NonTrivial = true
			if e.Problem != "" {
				return ev.Failf("env-diff-unfaithful", "op %d: the diff attached to the rebuild of %s is not faithful: %s", n, e.Label, e.Problem)
			}
			if len(e.DiffKeys) == 0 {
				return ev.Failf("diff-of-equal-environments", "op %d: %s is re-evaluated with reason %q but no part of its environment differs", n, e.Label, e.Text)
			}
			if why := reasonNames(e.Text, e.DiffKeys, e.SameKeys); why != "" {
				return ev.Failf("reason-mismatch", "op %d: %s is re-evaluated with reason %q; the parts of its environment that differ are %v (equal: %v): %s", n, e.Label, e.Text, e.DiffKeys, e.SameKeys, why)
			}
			for _, k := range e.DiffKeys {
				v.Classes = append(v.Classes, "key:"+k)
			}
		}
	}
	return v
}

var envEdits = []string{"const", "body", "helper-const", "helper-code", "flag", "const", "doc", "comment", "src-new", "dep-add"}

func genReason(t *rapid.T) ReasonCase {
	m := projsim.GenModel(t, 6, false)
	n := rapid.IntRange(2, 8).Draw(t, "nops")
	var ops []projsim.Op
	for i := 0; i < n; i++ {
		if rapid.IntRange(0, 2).Draw(t, "isbuild") == 2 {
			b := projsim.GenBuild(t, false, false, false)
			b.Always = rapid.IntRange(0, 3).Draw(t, "forced") == 3
			if !b.Always && rapid.IntRange(0, 4).Draw(t, "interrupt") == 4 {
				b = projsim.GenCrash(t, b)
			}
			ops = append(ops, b)
		} else if rapid.IntRange(0, 5).Draw(t, "oldrec") == 5 {
			ops = append(ops, projsim.Op{Kind: "old-record", T: rapid.IntRange(0, 11).Draw(t, "ort")})
		} else {
			ops = append(ops, projsim.GenEdit(t, envEdits))
		}
	}
	ops = append(ops, projsim.Op{Kind: "build", T: len(m.Targets) - 1})
	return ReasonCase{M: m, Ops: ops}
}

func TestC16Reason(t *testing.T) {
	ev.Explore(run, t, "reason", run.N(250, 3000), genReason, execReason)
}
