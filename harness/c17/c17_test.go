package c17

import (
	"fmt"
	"os"
	"path/filepath"
	"sort"
	"strconv"
	"strings"
	"sync"
	"testing"
	"unicode/utf8"

	dawn "github.com/pgavlin/dawn"
	starlark_os "github.com/pgavlin/dawn/lib/os"
	"github.com/pgavlin/dawn/util"
	"github.com/pgavlin/dawn/verif/ev"
	"go.starlark.net/starlark"
	"pgregory.net/rapid"
)

var run *ev.Run

func TestMain(m *testing.M) {
	run = ev.Start("C17", "exploration",
		"rapid draws a list of 0-4 glob patterns over {a,b,/,.,*,?,\\*,\\?,\\\\,\\[,\\],+,(,),|,{,},^,$,space,é} (>=60% with two or more patterns) and a path, "+
			"half of the paths derived from one pattern by instantiating its wildcards and then extended/trimmed at either end (anchoring class). "+
			"Oracle: an independent recursive rune matcher implementing the statement; CompileGlobs(list).MatchString(path) must equal the OR over "+
			"patterns; invalid escapes must be rejected. End to end: glob(include, exclude), os.glob and the dawn.toml ignore list on generated trees "+
			"must select exactly the reference's files/packages. Non-trivial = >=2 patterns and the path matches exactly one pattern or a strict "+
			"prefix/suffix extension of a match. Distinct by case JSON.",
		"patterns contain no unescaped '[' or ']' (the statement gives them no meaning); paths are single-line valid UTF-8",
		"an empty pattern list is only asked about non-empty paths (every caller passes non-empty paths)",
	)
	ev.Main(m, run)
}

// ---- reference matcher ----------------------------------------------------------------

type tok struct {
	kind int // 0 literal, 1 star, 2 doublestar, 3 question
	r    rune
}

func tokenize(p string) ([]tok, bool) {
	var out []tok
	rs := []rune(p)
	for i := 0; i < len(rs); i++ {
		switch rs[i] {
		case '\\':
			if i+1 >= len(rs) {
				return nil, false
			}
			switch rs[i+1] {
			case '\\', '*', '?', '[', ']':
				out = append(out, tok{0, rs[i+1]})
				i++
			default:
				return nil, false
			}
		case '*':
			if i+1 < len(rs) && rs[i+1] == '*' {
				out = append(out, tok{kind: 2})
				i++
			} else {
				out = append(out, tok{kind: 1})
			}
		case '?':
			out = append(out, tok{kind: 3})
		case '[', ']':
			// unescaped brackets have no stated meaning: outside the domain
			rawBracket = true
			out = append(out, tok{0, rs[i]})
		default:
			out = append(out, tok{0, rs[i]})
		}
	}
	return out, true
}

var rawBracket bool

func hasRawBracket(ps []string) bool {
	rawBracket = false
	for _, p := range ps {
		tokenize(p)
	}
	return rawBracket
}

func matchToks(ts []tok, s []rune) bool {
	if len(ts) == 0 {
		return len(s) == 0
	}
	switch ts[0].kind {
	case 0:
		return len(s) > 0 && s[0] == ts[0].r && matchToks(ts[1:], s[1:])
	case 3:
		return len(s) > 0 && matchToks(ts[1:], s[1:])
	case 1:
		for i := 0; ; i++ {
			if matchToks(ts[1:], s[i:]) {
				return true
			}
			if i >= len(s) || s[i] == '/' {
				return false
			}
		}
	default:
		for i := 0; i <= len(s); i++ {
			if matchToks(ts[1:], s[i:]) {
				return true
			}
		}
		return false
	}
}

func refMatch(pattern, path string) (bool, bool) {
	ts, ok := tokenize(pattern)
	if !ok {
		return false, false
	}
	return matchToks(ts, []rune(path)), true
}

// ---- pure check -------------------------------------------------------------------------

type Case struct {
	Patterns []string `json:"patterns"`
	Path     string   `json:"path"`
}

func execPure(c Case) (v ev.Verdict) {
	defer func() {
		if r := recover(); r != nil {
			v = ev.Failf("panic", "CompileGlobs(%q) / match %q panicked: %v", c.Patterns, c.Path, r)
		}
	}()
	if !utf8.ValidString(c.Path) || strings.ContainsRune(c.Path, '\n') {
		return ev.Verdict{Skip: "path-outside-domain"}
	}
	if len(c.Patterns) == 0 && c.Path == "" {
		return ev.Verdict{Skip: "empty-list-empty-path"}
	}
	if hasRawBracket(c.Patterns) {
		return ev.Verdict{Skip: "unescaped-bracket"}
	}
	want, valid := false, true
	nmatch := 0
	for _, p := range c.Patterns {
		m, ok := refMatch(p, c.Path)
		if !ok {
			valid = false
		}
		if m {
			want = true
			nmatch++
		}
	}
	re, err := util.CompileGlobs(c.Patterns)
	if !valid {
		v.Classes = append(v.Classes, "invalid-escape")
		if err == nil {
			return ev.Failf("invalid-accepted", "CompileGlobs(%q) accepted a list with an invalid escape sequence", c.Patterns)
		}
		return v
	}
	if err != nil {
		return ev.Failf("valid-rejected", "CompileGlobs(%q) failed: %v", c.Patterns, err)
	}
	got := re.MatchString(c.Path)
	v.Classes = append(v.Classes, fmt.Sprintf("patterns:%d", len(c.Patterns)))
	if want {
		v.Classes = append(v.Classes, "match")
	} else {
		v.Classes = append(v.Classes, "nomatch")
	}
	// anchoring class: some strict prefix or suffix of the path (or an extension) matches
	anch := false
	if len(c.Patterns) >= 2 && !want {
		rs := []rune(c.Path)
		for i := 1; i < len(rs) && !anch; i++ {
			for _, p := range c.Patterns {
				if m, _ := refMatch(p, string(rs[i:])); m {
					anch = true
				}
				if m, _ := refMatch(p, string(rs[:len(rs)-i])); m {
					anch = true
				}
			}
		}
		if anch {
			v.Classes = append(v.Classes, "anchoring")
		}
	}
	v.NonTrivial = len(c.Patterns) >= 2 && (nmatch == 1 || anch)
	if got != want {
		sig := "mismatch"
		if got && !want {
			sig = "matches-too-much"
		} else {
			sig = "matches-too-little"
		}
		return ev.Failf(sig, "CompileGlobs(%q).MatchString(%q) = %v, reference (union of whole-path matches) = %v (regexp %q)", c.Patterns, c.Path, got, want, re.String())
	}
	return v
}

var patAtoms = []string{"a", "b", "/", ".", "*", "**", "?", "\\*", "\\?", "\\\\", "\\[", "\\]", "+", "(", ")", "|", "{", "}", "^", "$", " ", "é", "a", "b", "/", "*", "ab",
	// text that is regexp syntax when it is not quoted: counted repetitions, flags, classes
	"1", "2", ",", "{2}", "{1,2}", "{1,}", "a{2}", "(?i)", "(?s)", ".*", "a+", "(?:", "(?P<n>",
	// letters whose UTF-8 encodings share their first byte(s)
	"è", "ë", "é", "résumé", "résumè", "日", "旧", "€", "₭"}
var badAtoms = []string{"\\a", "\\.", "\\", "\\pL", "\\d", "\\A", "\\z", "\\Q", "\\{", "\\1"}
var pathAtoms = []string{"a", "b", "/", ".", "*", "?", "\\", "[", "]", "+", "(", ")", "|", "$", "^", "{", "é", "a", "b", "/", "ab", " ", "1", "2", ",", "}", "{2}", "{1,2}", "aa", "A", "B", "(?i)", "d", "pL", "Q", "è", "ë", "résumé", "résumè", "日", "旧", "€"}

func genPattern(t *rapid.T, allowBad bool) string {
	n := rapid.IntRange(0, 6).Draw(t, "plen")
	var b strings.Builder
	for i := 0; i < n; i++ {
		if allowBad && rapid.IntRange(0, 120).Draw(t, "bad") == 77 {
			b.WriteString(rapid.SampledFrom(badAtoms).Draw(t, "badatom"))
			continue
		}
		b.WriteString(rapid.SampledFrom(patAtoms).Draw(t, "atom"))
	}
	return b.String()
}

func genPathAtoms(t *rapid.T, min, max int) string {
	n := rapid.IntRange(min, max).Draw(t, "len")
	var b strings.Builder
	for i := 0; i < n; i++ {
		b.WriteString(rapid.SampledFrom(pathAtoms).Draw(t, "patom"))
	}
	return b.String()
}

// instantiate produces a path matched by the pattern (wildcards replaced by drawn text).
func instantiate(t *rapid.T, p string) string {
	ts, ok := tokenize(p)
	if !ok {
		return genPathAtoms(t, 0, 6)
	}
	var b strings.Builder
	for _, k := range ts {
		switch k.kind {
		case 0:
			b.WriteRune(k.r)
		case 3:
			b.WriteString(rapid.SampledFrom([]string{"a", "b", "/", ".", "é", "*"}).Draw(t, "q"))
		case 1:
			b.WriteString(rapid.SampledFrom([]string{"", "a", "ab", "b.a", "é"}).Draw(t, "star"))
		default:
			b.WriteString(rapid.SampledFrom([]string{"", "a", "a/b", "/", "b/a/b", "/a"}).Draw(t, "dstar"))
		}
	}
	return b.String()
}

func genCase(t *rapid.T) Case {
	np := rapid.SampledFrom([]int{2, 2, 3, 2, 1, 3, 4, 2, 3, 1, 0, 4, 2, 3}).Draw(t, "np")
	ps := make([]string, np)
	for i := range ps {
		ps[i] = genPattern(t, true)
	}
	var path string
	mode := rapid.IntRange(0, 9).Draw(t, "pathmode")
	if np == 0 || mode < 3 {
		path = genPathAtoms(t, 0, 8)
	} else {
		base := instantiate(t, ps[rapid.IntRange(0, np-1).Draw(t, "which")])
		switch {
		case mode < 6:
			path = base
		case mode == 6:
			path = base + genPathAtoms(t, 1, 2) // extension at the end
		case mode == 7:
			path = genPathAtoms(t, 1, 2) + base // extension at the start
		case mode == 8:
			rs := []rune(base)
			if len(rs) > 0 {
				path = string(rs[:len(rs)-1])
			}
		default:
			rs := []rune(base)
			if len(rs) > 0 {
				path = string(rs[1:])
			}
		}
	}
	if np == 0 && path == "" {
		path = "a"
	}
	return Case{Patterns: ps, Path: path}
}

// ---- end to end ----------------------------------------------------------------------------

type TreeCase struct {
	Files   []string `json:"files"`   // relative file paths (components over a safe alphabet)
	Include []string `json:"include"` // valid patterns
	Exclude []string `json:"exclude"`
	Ignore  []string `json:"ignore"` // dawn.toml ignore list (package paths)
	// a second glob() call in the same BUILD file (one project, several pattern lists)
	Include2 []string `json:"include2,omitempty"`
	Exclude2 []string `json:"exclude2,omitempty"`
}

var fileComps = []string{"a", "b", "a,b", "ab", "a.b", "a+b", "(a)", "a|b", "$a", "^b", "{a}", "a b", "é", "b.c", "ba", "a$"}

func genTree(t *rapid.T) TreeCase {
	nf := rapid.IntRange(1, 8).Draw(t, "nf")
	seen := map[string]bool{}
	var files []string
	isDir := map[string]bool{}
	for i := 0; i < nf; i++ {
		depth := rapid.IntRange(1, 3).Draw(t, "depth")
		parts := make([]string, depth)
		for j := range parts {
			parts[j] = rapid.SampledFrom(fileComps).Draw(t, "comp")
		}
		p := strings.Join(parts, "/")
		// a path may not be both a file and a directory
		ok := !seen[p] && !isDir[p]
		for j := 1; j < depth && ok; j++ {
			if seen[strings.Join(parts[:j], "/")] {
				ok = false
			}
		}
		if !ok {
			continue
		}
		seen[p] = true
		for j := 1; j < depth; j++ {
			isDir[strings.Join(parts[:j], "/")] = true
		}
		files = append(files, p)
	}
	genList := func(label string, min, max int) []string {
		n := rapid.IntRange(min, max).Draw(t, label)
		out := make([]string, 0, n)
		for i := 0; i < n; i++ {
			if len(files) > 0 && rapid.Bool().Draw(t, "fromfile") {
				// derive a pattern from a file: replace components by wildcards
				f := rapid.SampledFrom(files).Draw(t, "file")
				parts := strings.Split(f, "/")
				for j := range parts {
					switch rapid.IntRange(0, 4).Draw(t, "wild") {
					case 0:
						parts[j] = "*"
					case 1:
						parts[j] = escapeLit(parts[j][:1]) + "*"
					case 2:
						parts[j] = strings.Repeat("?", utf8.RuneCountInString(parts[j]))
					default:
						parts[j] = escapeLit(parts[j])
					}
				}
				p := strings.Join(parts, "/")
				if rapid.IntRange(0, 4).Draw(t, "ds") == 0 {
					p = "**" + p[len(parts[0]):]
				}
				out = append(out, p)
			} else {
				out = append(out, genPattern(t, false))
			}
		}
		return out
	}
	tc := TreeCase{Files: files, Include: genList("ninc", 1, 3), Exclude: genList("nexc", 0, 2), Ignore: genList("nign", 0, 2)}
	switch rapid.IntRange(0, 3).Draw(t, "second") {
	case 1:
		tc.Include2, tc.Exclude2 = genList("ninc2", 1, 3), genList("nexc2", 0, 2)
	case 2:
		// the same patterns cut differently: every pattern of the first list split at its commas, or all of
		// them joined by commas into one
		for _, p := range tc.Include {
			tc.Include2 = append(tc.Include2, strings.Split(p, ",")...)
		}
		if len(tc.Include2) == len(tc.Include) {
			tc.Include2 = []string{strings.Join(tc.Include, ",")}
		}
	case 3:
		tc.Include2, tc.Exclude2 = tc.Exclude, tc.Include // swapped roles
		if len(tc.Include2) == 0 {
			tc.Include2 = []string{"**"}
		}
	}
	return tc
}

func escapeLit(s string) string {
	var b strings.Builder
	for _, r := range s {
		switch r {
		case '*', '?', '\\', '[', ']':
			b.WriteByte('\\')
		}
		b.WriteRune(r)
	}
	return b.String()
}

func refAny(ps []string, path string) bool {
	for _, p := range ps {
		if m, _ := refMatch(p, path); m {
			return true
		}
	}
	return false
}

func starList(ss []string) string {
	q := make([]string, len(ss))
	for i, s := range ss {
		q[i] = strconv.Quote(s)
	}
	return "[" + strings.Join(q, ", ") + "]"
}

func tomlList(ss []string) string {
	q := make([]string, len(ss))
	for i, s := range ss {
		q[i] = "'" + s + "'"
	}
	return "[" + strings.Join(q, ", ") + "]"
}

func execTree(c TreeCase) (v ev.Verdict) {
	defer func() {
		if r := recover(); r != nil {
			v = ev.Failf("panic", "panic: %v", r)
		}
	}()
	for _, p := range append(append(append([]string{}, c.Include...), c.Exclude...), c.Ignore...) {
		if _, ok := tokenize(p); !ok || strings.Contains(p, "'") || hasRawBracket([]string{p}) {
			return ev.Verdict{Skip: "invalid-pattern-in-tree-case"}
		}
	}
	dir, err := os.MkdirTemp("", "c17-")
	if err != nil {
		return ev.Verdict{Skip: "mkdtemp"}
	}
	defer os.RemoveAll(dir)
	for _, f := range c.Files {
		p := filepath.Join(dir, filepath.FromSlash(f))
		os.MkdirAll(filepath.Dir(p), 0o755)
		os.WriteFile(p, []byte("x"), 0o644)
	}
	// a sub-package per top-level directory, to observe the ignore list
	tops := map[string]bool{}
	for _, f := range c.Files {
		if i := strings.IndexByte(f, '/'); i > 0 {
			tops[f[:i]] = true
		}
	}
	var topList []string
	for d := range tops {
		topList = append(topList, d)
		os.WriteFile(filepath.Join(dir, d, "BUILD.dawn"), []byte("def f():\n    pass\ntarget(name=\"t\", function=f)\n"), 0o644)
	}
	sort.Strings(topList)
	cfg := "name = \"t\"\n"
	if len(c.Ignore) > 0 {
		cfg += "ignore = " + tomlList(c.Ignore) + "\n"
	}
	os.WriteFile(filepath.Join(dir, "dawn.toml"), []byte(cfg), 0o644)
	build := fmt.Sprintf("vf_capture(\"glob\", glob(%s, exclude=%s))\nvf_capture(\"osglob\", os.glob(%s, exclude=%s))\n",
		starList(c.Include), starList(c.Exclude), starList(c.Include), starList(c.Exclude))
	if len(c.Include2) > 0 {
		build += fmt.Sprintf("vf_capture(\"glob2\", glob(%s, exclude=%s))\n", starList(c.Include2), starList(c.Exclude2))
	}
	os.WriteFile(filepath.Join(dir, "BUILD.dawn"), []byte(build), 0o644)

	var mu sync.Mutex
	captured := map[string][]string{}
	capture := starlark.NewBuiltin("vf_capture", func(_ *starlark.Thread, _ *starlark.Builtin, args starlark.Tuple, _ []starlark.Tuple) (starlark.Value, error) {
		name := string(args[0].(starlark.String))
		var out []string
		it := args[1].(starlark.Iterable).Iterate()
		defer it.Done()
		var x starlark.Value
		for it.Next(&x) {
			out = append(out, string(x.(starlark.String)))
		}
		mu.Lock()
		captured[name] = out
		mu.Unlock()
		return starlark.None, nil
	})
	proj, err := dawn.Load(dir, &dawn.LoadOptions{Builtins: starlark.StringDict{"vf_capture": capture, "os": starlark_os.Module}})
	if err != nil {
		return ev.Failf("load-failed", "Load failed for %+v: %v", c, err)
	}

	// reference: all files under the root except .dawn/build, relative paths
	var all, allWithDirs []string
	filepath.WalkDir(dir, func(p string, d os.DirEntry, err error) error {
		if p == dir {
			return nil
		}
		rel := filepath.ToSlash(p[len(dir)+1:])
		allWithDirs = append(allWithDirs, rel)
		if rel == ".dawn/build" {
			return filepath.SkipDir
		}
		if !d.IsDir() {
			all = append(all, rel)
		}
		return nil
	})
	if refAny(c.Ignore, "") {
		// the root package itself is ignored: its BUILD.dawn must not have run
		v.Classes = append(v.Classes, "root-ignored")
		if len(captured) != 0 || len(proj.Targets()) != 0 {
			return ev.Failf("ignore-list", "ignore=%q matches the root package but packages were loaded (captured=%v targets=%d)", c.Ignore, captured, len(proj.Targets()))
		}
		return v
	}
	if _, ok := captured["glob"]; !ok {
		return ev.Failf("ignore-list", "ignore=%q does not match the root package but its BUILD.dawn did not run", c.Ignore)
	}
	var wantGlob []string
	for _, f := range all {
		if refAny(c.Include, f) && !refAny(c.Exclude, f) {
			wantGlob = append(wantGlob, f)
		}
	}
	got := append([]string{}, captured["glob"]...)
	sort.Strings(got)
	sort.Strings(wantGlob)
	v.Classes = append(v.Classes, fmt.Sprintf("include:%d", len(c.Include)))
	if len(wantGlob) > 0 {
		v.Classes = append(v.Classes, "glob-selects-some")
	}
	v.NonTrivial = len(c.Include) >= 2 && len(wantGlob) > 0 && len(wantGlob) < len(all)
	if strings.Join(got, "\x00") != strings.Join(wantGlob, "\x00") {
		return ev.Failf("glob-builtin", "glob(%q, exclude=%q) over files %q = %q, reference %q", c.Include, c.Exclude, all, got, wantGlob)
	}
	if len(c.Include2) > 0 {
		var want2 []string
		for _, f := range all {
			if refAny(c.Include2, f) && !refAny(c.Exclude2, f) {
				want2 = append(want2, f)
			}
		}
		got2 := append([]string{}, captured["glob2"]...)
		sort.Strings(got2)
		sort.Strings(want2)
		v.Classes = append(v.Classes, "second-glob-call")
		if strings.Join(got2, "\x00") != strings.Join(want2, "\x00") {
			return ev.Failf("glob-builtin", "second call in one BUILD file: glob(%q, exclude=%q) over files %q = %q, reference %q (first call: glob(%q, exclude=%q))", c.Include2, c.Exclude2, all, got2, want2, c.Include, c.Exclude)
		}
	}
	// os.glob: files and directories below the working directory, including .dawn
	var wantOS []string
	for _, f := range allWithDirs {
		if refAny(c.Include, f) && !refAny(c.Exclude, f) {
			wantOS = append(wantOS, f)
		}
	}
	gotOS := append([]string{}, captured["osglob"]...)
	// .dawn/build contents are created concurrently with the load; compare outside .dawn only
	filt := func(in []string) []string {
		var out []string
		for _, s := range in {
			if s != ".dawn" && !strings.HasPrefix(s, ".dawn/") {
				out = append(out, s)
			}
		}
		sort.Strings(out)
		return out
	}
	gotOS, wantOS = filt(gotOS), filt(wantOS)
	if strings.Join(gotOS, "\x00") != strings.Join(wantOS, "\x00") {
		return ev.Failf("os-glob", "os.glob(%q, exclude=%q) = %q, reference %q", c.Include, c.Exclude, gotOS, wantOS)
	}
	// ignore list: a package //d is loaded iff d does not match the ignore list
	if len(c.Ignore) > 0 {
		v.Classes = append(v.Classes, "ignore")
		loaded := map[string]bool{}
		for _, tg := range proj.Targets() {
			loaded[tg.Label().Package] = true
		}
		for _, d := range topList {
			// an ignored directory prunes everything below it; the root package is the path ""
			want := !refAny(c.Ignore, "") && !refAny(c.Ignore, d)
			if loaded["//"+d] != want {
				return ev.Failf("ignore-list", "ignore=%q: package //%s loaded=%v, reference says loaded=%v", c.Ignore, d, loaded["//"+d], want)
			}
		}
	}
	return v
}

func TestC17(t *testing.T) {
	ev.Explore(run, t, "match", run.N(40000, 400000), genCase, execPure)
	ev.Explore(run, t, "tree", run.N(1200, 8000), genTree, execTree)
}
