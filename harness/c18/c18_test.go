package c18

import (
	"fmt"
	"sort"
	"strconv"
	"strings"
	"testing"

	dawn "github.com/pgavlin/dawn"
	"github.com/pgavlin/dawn/label"
	"github.com/pgavlin/dawn/verif/ev"
	"github.com/pgavlin/dawn/verif/projsim"
	"pgregory.net/rapid"
)

var run *ev.Run

func TestMain(m *testing.M) {
	projsim.MaybeChild()
	run = ev.Start("C18", "exploration",
		"(a) the real per-target line writer is driven by generated rounds of Write chunks followed by Flush (empty chunks, boundaries inside, at and after "+
			"newlines, trailing partial lines, only newlines; 1-3 rounds on one writer, as repeated runs of one loaded project do). Model: each round delivers "+
			"split(text, newline) without a final empty element, in order, exactly once. (b) rapid draws projects and histories as in C01 whose bodies "+
			"print() and write generated chunked output, with failing bodies (some of which first remove the state directory's temp folder, so that recording "+
			"the failure fails too), removed (missing) dependencies, dependency labels that name nothing (no such target, package without a BUILD file), dependency cycles written in BUILD files, dry "+
			"runs, sub-target builds and repeated runs of one loaded project; targets run in parallel. Oracle per build and label: the event sequence is "+
			"UpToDate | Evaluating Print* (Succeeded|Failed) | Failed, a lone Failed only for a target with a missing dependency or on/behind a cycle, "+
			"nothing at all only downstream of a failure; a requested target with a dependency that names nothing reports exactly a lone Failed, and a failing run of an existing target carries at least one Failed event; every Print lies between that label's Evaluating and its completion and the printed lines equal "+
			"the expected lines exactly once in order; Evaluating for a function target iff its body started (real runs); a dependent's first event follows "+
			"its dependencies' last events; RunDone exactly once per run, after the requested target's last event, carrying Run's error. Non-trivial = "+
			">=2 targets executed and some output was written in >=2 chunks that split a line. Distinct by case JSON.",
		"the CLI renderers are not executed; the event-stream condition they rely on (Print only between Evaluating and completion) is checked",
	)
	ev.Main(m, run)
}

// ---- (a) line writer ------------------------------------------------------------------------

type WriterCase struct {
	Rounds [][]string `json:"rounds"`
}

func expectedLines(chunks []string) []string {
	text := strings.Join(chunks, "")
	if text == "" {
		return nil
	}
	lines := strings.Split(text, "\n")
	if lines[len(lines)-1] == "" {
		lines = lines[:len(lines)-1]
	}
	return lines
}

// expand: a chunk "~N" stands for N bytes without a newline (long lines arrive in pieces of 32 KiB from io.Copy)
func expand(ch string) string {
	if strings.HasPrefix(ch, "~") {
		if n, err := strconv.Atoi(ch[1:]); err == nil {
			return strings.Repeat("z", n)
		}
	}
	return ch
}

func clipq(ss []string) string {
	var out []string
	for _, s := range ss {
		if len(s) > 80 {
			s = fmt.Sprintf("%s...(%d bytes)", s[:40], len(s))
		}
		out = append(out, strconv.Quote(s))
	}
	return "[" + strings.Join(out, " ") + "]"
}

func execWriter(c WriterCase) (v ev.Verdict) {
	shared := make([]byte, 64)
	rounds := make([][]string, len(c.Rounds))
	for r, chunks := range c.Rounds {
		for _, ch := range chunks {
			e := expand(ch)
			if len(e) > len(shared) {
				shared = make([]byte, len(e))
				v.Classes = append(v.Classes, "long-line")
			}
			rounds[r] = append(rounds[r], e)
		}
	}
	c.Rounds = rounds
	rec := &projsim.Recorder{}
	l, _ := label.Parse("//:w")
	w := dawn.VerifNewLineWriter(l, rec)
	split := false
	for r, chunks := range c.Rounds {
		start := len(rec.Events)
		for _, ch := range chunks {
			// the caller owns the buffer: it is reused and overwritten after every Write, as io.Copy does
			n0 := copy(shared[:], ch)
			n, err := w.Write(shared[:n0])
			for i := 0; i < n0; i++ {
				shared[i] = '#'
			}
			if err != nil || n != len(ch) {
				return ev.Failf("short-write", "Write(%d bytes) = %d, %v", len(ch), n, err)
			}
			if ch != "" && !strings.HasSuffix(ch, "\n") {
				split = true
			}
		}
		w.Flush()
		var got []string
		for _, e := range rec.Events[start:] {
			got = append(got, e.Text)
		}
		want := expectedLines(chunks)
		if strings.Join(got, "\x00") != strings.Join(want, "\x00") || len(got) != len(want) {
			return ev.Failf("lines-differ", "round %d: chunks %s were delivered as %d lines %s, want %d lines %s", r, clipq(chunks), len(got), clipq(got), len(want), clipq(want))
		}
	}
	v.NonTrivial = split && len(c.Rounds) > 0
	v.Classes = append(v.Classes, fmt.Sprintf("rounds:%d", len(c.Rounds)))
	return v
}

var chunkPool = []string{"a", "b\n", "", "\n", "xy", "line\nnext", "\n\n", "tail", "é\n", "a\nb\nc", " ", "end\n"}

func genWriter(t *rapid.T) WriterCase {
	nr := rapid.SampledFrom([]int{1, 2, 1, 3, 2}).Draw(t, "rounds")
	var c WriterCase
	for r := 0; r < nr; r++ {
		n := rapid.IntRange(0, 6).Draw(t, "nchunks")
		chunks := make([]string, n)
		for i := range chunks {
			chunks[i] = rapid.SampledFrom(chunkPool).Draw(t, "chunk")
			if rapid.IntRange(0, 30).Draw(t, "long") == 7 {
				chunks[i] = rapid.SampledFrom([]string{"~32768", "~40000", "~65536", "~70000", "~1000", "~4096", "~131072"}).Draw(t, "longchunk")
			}
		}
		c.Rounds = append(c.Rounds, chunks)
	}
	return c
}

// ---- (b) event protocol over histories ----------------------------------------------------------

type Case struct {
	M   *projsim.Model `json:"m"`
	Ops []projsim.Op   `json:"ops"` // build ops may carry I = number of extra runs of the same loaded project
}

func onCycle(m *projsim.Model, id int) bool {
	// can id reach itself following Deps, GenSrc and FwdDeps?
	seen := map[int]bool{}
	var walk func(i int) bool
	walk = func(i int) bool {
		t := m.Targets[i]
		for _, d := range append(append(append(append([]int{}, t.Deps...), t.GenSrc...), t.FwdDeps...), t.OrdDeps...) {
			if d >= len(m.Targets) {
				continue
			}
			if d == id {
				return true
			}
			if !seen[d] {
				seen[d] = true
				if walk(d) {
					return true
				}
			}
		}
		return false
	}
	return walk(id)
}

func allDeps(m *projsim.Model, id int) []int {
	t := m.Targets[id]
	seen := map[int]bool{}
	var out []int
	for _, d := range append(append(append(append([]int{}, t.Deps...), t.GenSrc...), t.FwdDeps...), t.OrdDeps...) {
		if d < len(m.Targets) && !seen[d] {
			seen[d] = true
			out = append(out, d)
		}
	}
	return out
}

// reachesTrouble: id (transitively) depends on a removed target or on a cycle.
func reachesTrouble(m *projsim.Model, id int) bool {
	seen := map[int]bool{}
	var walk func(i int) bool
	walk = func(i int) bool {
		if seen[i] {
			return false
		}
		seen[i] = true
		if m.Targets[i].Removed || len(m.Targets[i].GhostDeps) > 0 || onCycle(m, i) {
			return true
		}
		for _, d := range allDeps(m, i) {
			if walk(d) {
				return true
			}
		}
		return false
	}
	return walk(id)
}

// stateFault: a body of this build removed part of the state directory, so that records may fail to be
// written. The statement does not say what is reported then; only the shape of each target's events
// (never two completion events, output between evaluating and completion) is still held.
func checkRun(m *projsim.Model, label string, events []projsim.Event, log []projsim.LogEntry, dry bool, runErr string, where string, stateFault bool) *ev.Verdict {
	fail := func(sig, format string, args ...any) *ev.Verdict {
		f := ev.Failf(sig, where+": "+format, args...)
		return &f
	}
	// RunDone exactly once, last relevant
	nDone, doneSeq := 0, -1
	for i, e := range events {
		if e.Kind == "RunDone" {
			nDone++
			doneSeq = i
			if e.Err != (runErr != "") {
				return fail("rundone-error", "RunDone carries err=%v but Run returned %q", e.Err, runErr)
			}
			if e.Err && e.Text != runErr {
				return fail("rundone-error", "RunDone carries %q but Run returned %q", e.Text, runErr)
			}
		}
	}
	if nDone != 1 {
		return fail("rundone-count", "%d RunDone events", nDone)
	}
	// did this run report a cyclic dependency? (the error Run returns only names the failed dependency)
	cyclicRun := false
	for _, e := range events {
		if e.Kind == "Failed" && strings.Contains(strings.ToLower(e.Text), "cycl") {
			cyclicRun = true
		}
	}
	byLabel := map[string][]int{}
	for i, e := range events {
		if e.Label != "" && e.Kind != "ModuleLoading" && e.Kind != "ModuleLoadFailed" {
			byLabel[e.Label] = append(byLabel[e.Label], i)
		}
	}
	// requested target's last event precedes RunDone
	if idx := byLabel[label]; len(idx) > 0 && idx[len(idx)-1] > doneSeq {
		return fail("rundone-early", "RunDone was delivered before the last event of the requested target %s", label)
	}
	// A dependency that names nothing is reported: by the requested target itself with a lone Failed when
	// the dependency is its own (the requested target is certainly visited; which other targets are, after
	// a failure, is the implementation's business), and in any case a run that fails although the requested
	// target exists carries at least one Failed event - a failure nobody reported is a missing event.
	{
		completedOK := func(l string) bool {
			idx := byLabel[l]
			if len(idx) == 0 {
				return false
			}
			k := events[idx[len(idx)-1]].Kind
			return k == "UpToDate" || k == "Succeeded"
		}
		for i := range m.Targets {
			if m.Label(i) != label || m.Targets[i].Removed {
				continue
			}
			if runErr != "" {
				reported := false
				for _, e := range events {
					if e.Kind == "Failed" {
						reported = true
					}
				}
				if !reported {
					return fail("failure-not-reported", "the run of %s failed (%s) but no target reported a failure", label, runErr)
				}
			}
			t := m.Targets[i]
			missing := len(t.GhostDeps) > 0
			othersOK := true
			for _, d := range allDeps(m, i) {
				if m.Targets[d].Removed {
					missing = true
				} else if len(byLabel[m.Label(d)]) > 0 && !completedOK(m.Label(d)) {
					othersOK = false
				}
			}
			for _, sl := range m.SourceLabels(i) {
				if len(byLabel[sl]) > 0 && !completedOK(sl) {
					othersOK = false
				}
			}
			if missing && othersOK && !onCycle(m, i) {
				idx := byLabel[m.Label(i)]
				if len(idx) != 1 || events[idx[0]].Kind != "Failed" {
					var ks []string
					for _, j := range idx {
						ks = append(ks, events[j].Kind)
					}
					return fail("missing-dependency-not-reported", "one of the dependencies of the requested target %s names nothing, but its events are %v, want a lone Failed", m.Label(i), ks)
				}
			}
		}
	}
	started := map[string]bool{}
	for _, e := range log {
		if e.Phase == "start" {
			started[e.Label] = true
		}
	}
	idOf := map[string]int{}
	for _, t := range m.Targets {
		idOf[m.Label(t.ID)] = t.ID
	}
	for l, idx := range byLabel {
		var seq []string
		for _, i := range idx {
			seq = append(seq, events[i].Kind)
		}
		s := strings.Join(seq, " ")
		id, isFn := idOf[l]
		switch {
		case s == "UpToDate":
		case s == "Failed":
			// lone failure: only for a missing or cyclic dependency (or an up-to-date check error)
			if isFn && !stateFault && !reachesTrouble(m, id) && !strings.Contains(events[idx[0]].Text, "computing function environment") {
				return fail("lone-failed", "%s has a lone Failed event (%s) although it has no missing or cyclic dependency", l, events[idx[0]].Text)
			}
			if !isFn && !strings.HasSuffix(l, ":default") && !strings.HasPrefix(l, "source:") {
				return fail("lone-failed", "unknown label %s failed alone", l)
			}
		default:
			// Evaluating Print* (Succeeded|Failed)
			if cyclicRun && seq[0] == "Evaluating" && strings.Trim(strings.Join(seq[1:], ""), "Print") == "" {
				// After a cyclic-dependency error Run returns while other targets are still running (an
				// observation recorded in DESIGN 9.5); one of them - say a body waiting for a child process -
				// may not have completed when the events are looked at. "Not yet" is not "never".
				continue
			}
			if len(seq) < 2 || seq[0] != "Evaluating" || (seq[len(seq)-1] != "Succeeded" && seq[len(seq)-1] != "Failed") {
				var all []string
				for _, e := range events {
					all = append(all, e.Kind+" "+e.Label)
				}
				return fail("event-grammar", "events of %s are %q, want UpToDate | Evaluating Print* (Succeeded|Failed) | Failed (run error %q; all events of the run: %q)", l, s, runErr, all)
			}
			for _, k := range seq[1 : len(seq)-1] {
				if k != "Print" {
					return fail("event-grammar", "events of %s are %q, want UpToDate | Evaluating Print* (Succeeded|Failed) | Failed", l, s)
				}
			}
		}
		if isFn {
			hasE := seq[0] == "Evaluating"
			if !dry && hasE != started[l] {
				return fail("evaluating-vs-body", "%s: Evaluating reported=%v but body started=%v", l, hasE, started[l])
			}
			if dry && started[l] {
				return fail("dry-run-executed", "%s executed in a dry run", l)
			}
			// output lines
			var got []string
			for _, i := range idx {
				if events[i].Kind == "Print" {
					got = append(got, events[i].Text)
				}
			}
			var want []string
			t := m.Targets[id]
			completed := false
			for _, e := range log {
				if e.Label == l && e.Phase == "end" {
					completed = true
				}
			}
			if started[l] {
				want = append(want, t.Prints...)
				want = append(want, expectedLines(t.Emit)...)
				_ = completed
			}
			if started[l] && t.Exec > 0 {
				// A child process wrote whole lines alternately to its stdout and its stderr. Those are two
				// streams: each one's lines arrive exactly once and in order, after everything the body
				// wrote before it started the child; how the two interleave is not claimed.
				if len(got) < len(want) || strings.Join(got[:len(want)], "\x00") != strings.Join(want, "\x00") {
					return fail("output-lines", "%s printed %q, want %q first (chunks %q)", l, got, want, t.Emit)
				}
				var outs, errs, wantOut, wantErr []string
				for i, line := range projsim.ExecLines(t.Exec) {
					if i%2 == 1 {
						wantErr = append(wantErr, line)
					} else {
						wantOut = append(wantOut, line)
					}
				}
				isErr := map[string]bool{}
				for _, e := range wantErr {
					isErr[e] = true
				}
				for _, line := range got[len(want):] {
					if isErr[line] {
						errs = append(errs, line)
					} else {
						outs = append(outs, line)
					}
				}
				if strings.Join(outs, "\x00") != strings.Join(wantOut, "\x00") || strings.Join(errs, "\x00") != strings.Join(wantErr, "\x00") {
					return fail("output-lines", "%s: the child's lines arrived as stdout %q / stderr %q, want %q / %q", l, outs, errs, wantOut, wantErr)
				}
			} else if strings.Join(got, "\x00") != strings.Join(want, "\x00") || len(got) != len(want) {
				return fail("output-lines", "%s printed %q, want %q (chunks %q)", l, got, want, t.Emit)
			}
		}
	}
	// a function target that executed must have events
	for l := range started {
		if len(byLabel[l]) == 0 {
			return fail("executed-without-events", "%s executed but produced no events", l)
		}
	}
	// dependents after dependencies
	for l, idx := range byLabel {
		id, ok := idOf[l]
		if !ok {
			continue
		}
		if onCycle(m, id) {
			continue
		}
		if events[idx[0]].Kind == "Failed" {
			// a lone failure (missing or cyclic dependency) may be reported at any time: the statement
			// orders nothing but a body (and hence "evaluating" and "up to date") after its dependencies
			continue
		}
		var depLabels []string
		for _, d := range allDeps(m, id) {
			depLabels = append(depLabels, m.Label(d))
		}
		depLabels = append(depLabels, m.SourceLabels(id)...)
		for _, dl := range depLabels {
			if didx := byLabel[dl]; len(didx) > 0 && didx[len(didx)-1] > idx[0] {
				return fail("dependent-before-dependency", "the first event of %s (#%d %s) precedes the last event of its dependency %s (#%d %s)", l, idx[0], events[idx[0]].Kind, dl, didx[len(didx)-1], events[didx[len(didx)-1]].Kind)
			}
		}
	}
	return nil
}

func exec(c Case) (v ev.Verdict) {
	if c.M == nil || len(c.M.Targets) == 0 {
		return ev.Verdict{Skip: "empty"}
	}
	sim, err := projsim.NewSim(c.M.Clone())
	if err != nil {
		return ev.Verdict{Skip: "mkdtemp"}
	}
	defer sim.Close()
	m := sim.M
	for n, op := range c.Ops {
		if !op.IsBuild() {
			sim.ApplyEdit(op)
			continue
		}
		live := m.Live()
		if len(live) == 0 {
			continue
		}
		id := live[op.T%len(live)]
		lbl := m.Label(id)
		wiped := false
		for _, f := range op.Fail {
			name := m.Targets[live[f%len(live)]].Name()
			sim.SetFail(name, true)
			if op.I%3 == 1 {
				wiped = true
				// the failing body also removes the temp folder of the state directory first, so
				// that recording the failure fails as well
				sim.SetWipe(name)
			}
		}
		repeat := 0
		if op.I%4 == 3 && !op.Dry && len(op.Fail) == 0 {
			repeat = 1 + op.I%2
		}
		res := sim.Build(projsim.BuildReq{Label: lbl, Always: op.Always || repeat > 0, DryRun: op.Dry, Repeat: repeat})
		sim.ClearFails()
		where := fmt.Sprintf("op %d (build %s always=%v dry=%v fail=%v repeat=%d)", n, lbl, op.Always || repeat > 0, op.Dry, op.Fail, repeat)
		if res.Panic != "" {
			return ev.Failf("panic", "%s: panic: %s", where, res.Panic)
		}
		if res.LoadErr != "" {
			v.Classes = append(v.Classes, "load-error")
			continue
		}
		// split events and log per run
		evs := res.Events[res.LoadIndex:]
		var runs [][]projsim.Event
		cur := []projsim.Event{}
		for _, e := range evs {
			cur = append(cur, e)
			if e.Kind == "RunDone" {
				runs = append(runs, cur)
				cur = []projsim.Event{}
			}
		}
		if len(cur) > 0 {
			// events after the last RunDone (stragglers after a cycle error) belong to the last run
			if len(runs) == 0 {
				return ev.Failf("rundone-count", "%s: no RunDone event at all", where)
			}
			runs[len(runs)-1] = append(runs[len(runs)-1], cur...)
		}
		if len(runs) != repeat+1 && res.RunErr == "" {
			return ev.Failf("rundone-count", "%s: %d RunDone events for %d runs", where, len(runs), repeat+1)
		}
		// the execution log per run: split evenly by occurrences (every run with always executes the same bodies)
		logs := make([][]projsim.LogEntry, len(runs))
		if len(runs) == 1 {
			logs[0] = res.Log
		} else {
			seen := map[string]int{}
			for _, e := range res.Log {
				k := e.Label + " " + e.Phase
				r := seen[k]
				seen[k]++
				if r < len(logs) {
					logs[r] = append(logs[r], e)
				}
			}
		}
		for r := range runs {
			runErr := ""
			if r == len(runs)-1 {
				runErr = res.RunErr
			}
			if f := checkRun(m, lbl, runs[r], logs[r], op.Dry, runErr, fmt.Sprintf("%s run %d", where, r), wiped); f != nil {
				return *f
			}
		}
		nexec := len(res.Executed())
		splitChunk := false
		for _, l := range res.Executed() {
			for _, t := range m.Targets {
				if m.Label(t.ID) == l && len(t.Emit) >= 2 {
					for _, ch := range t.Emit[:len(t.Emit)-1] {
						if ch != "" && !strings.HasSuffix(ch, "\n") {
							splitChunk = true
						}
					}
				}
			}
		}
		if nexec >= 2 && splitChunk {
			v.NonTrivial = true
		}
		switch {
		case repeat > 0:
			v.Classes = append(v.Classes, "repeated-run")
		case op.Dry:
			v.Classes = append(v.Classes, "dry")
		case res.RunErr != "":
			v.Classes = append(v.Classes, "failed-build")
		}
	}
	sort.Strings(v.Classes)
	return v
}

func gen(t *rapid.T) Case {
	m := projsim.GenModel(t, 8, true)
	for i := range m.Targets {
		if rapid.IntRange(0, 3).Draw(t, "prints") == 3 {
			m.Targets[i].Prints = []string{fmt.Sprintf("direct %d", i)}
		}
		if rapid.IntRange(0, 5).Draw(t, "exec") == 5 {
			// output of a child process: lines alternately on its stdout and stderr
			m.Targets[i].Exec = rapid.SampledFrom([]int{40, 3, 4000, 12, 1500}).Draw(t, "execlines")
			m.Targets[i].ExecTry = rapid.Bool().Draw(t, "exectry")
			if n := len(m.Targets[i].Emit); n > 0 && !strings.HasSuffix(m.Targets[i].Emit[n-1], "\n") {
				m.Targets[i].Emit = append(m.Targets[i].Emit, "\n") // the body's own output ends before the child starts
			}
		}
		if rapid.IntRange(0, 19).Draw(t, "ghost") == 7 {
			// a dependency that names nothing: no such target in an existing package, or a package without a BUILD file
			m.Targets[i].GhostDeps = []string{rapid.SampledFrom([]string{"//nopkg:ghost", ":ghost", "//:ghost", "//p1/none/deep:x", "//nopkg"}).Draw(t, "ghostlabel")}
			// the bare label of an existing package (it names no target) next to that package's default target
			// spelled out (which may exist): two spellings that must never be one target run twice. Only packages
			// whose default targets are all older than this target, so that no cycle arises.
			var bare []string
			for p, pk := range m.Pkgs {
				ok := true
				for j := range m.Targets {
					if m.Targets[j].Pkg == p && m.Targets[j].Default && j >= i {
						ok = false
					}
				}
				if ok {
					bare = append(bare, pk)
				}
			}
			if len(bare) > 0 && rapid.IntRange(0, 2).Draw(t, "barepkg") == 2 {
				pk := rapid.SampledFrom(bare).Draw(t, "barepkgname")
				m.Targets[i].GhostDeps = []string{pk, pk + ":default"}
				if rapid.Bool().Draw(t, "bareorder") {
					m.Targets[i].GhostDeps = []string{pk + ":default", pk}
				}
			}
		}
		if i > 0 && rapid.IntRange(0, 14).Draw(t, "cycle") == 11 {
			// a forward (or self) dependency written in the BUILD file: a cycle when the other side depends on us
			m.Targets[i-1].FwdDeps = []int{rapid.IntRange(i-1, len(m.Targets)-1).Draw(t, "fwd")}
		}
	}
	n := rapid.IntRange(3, 10).Draw(t, "nops")
	ops := []projsim.Op{{Kind: "build", T: len(m.Targets) - 1}}
	for i := 0; i < n; i++ {
		switch rapid.IntRange(0, 9).Draw(t, "opclass") {
		case 0, 1, 2:
			ops = append(ops, projsim.GenEdit(t, projsim.SemanticEdits()))
		case 3:
			ops = append(ops, projsim.GenEdit(t, []string{"target-del", "target-add", "comment"}))
		default:
			b := projsim.GenBuild(t, true, true, false)
			b.I = rapid.IntRange(0, 7).Draw(t, "repeat")
			ops = append(ops, b)
		}
	}
	return Case{M: m, Ops: ops}
}

func TestC18Writer(t *testing.T) {
	ev.Explore(run, t, "linewriter", run.N(8000, 100000), genWriter, execWriter)
}

func TestC18Events(t *testing.T) {
	ev.Explore(run, t, "events", run.N(150, 2500), gen, exec)
}
