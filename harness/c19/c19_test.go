package c19

import (
	"bytes"
	"fmt"
	"os"
	"path"
	"path/filepath"
	"reflect"
	"strings"
	"testing"
	"unicode"
	"unicode/utf8"

	"github.com/pgavlin/dawn/internal/project"
	"github.com/pgavlin/dawn/verif/ev"
	"golang.org/x/mod/semver"
	"pgregory.net/rapid"
)

var run *ev.Run
var scratch string

func TestMain(m *testing.M) {
	run = ev.Start("C19", "exploration",
		"rapid draws Config{Name, Version, Ignore, Requirements}: strings are arbitrary valid UTF-8 (rapid.String) or drawn from a hostile alphabet "+
			"(quotes, backslash, newline, CR, tab, NUL, DEL, U+0085, U+2028, #, =, brackets, braces, dots, spaces, ''' and \"\"\"); requirement names are "+
			"non-empty, a third of them near-twins of an earlier name (other case, one letter toggled, trailing space or dot, combining accent); requirement paths are in clean form (incl. @vN suffixes); versions are canonical semver (incl. pre-release and build-less). "+
			"Oracle: Load(Write(c)) == c (nil and empty identified), Write(Load(Write(c))) byte-equal to Write(c) on each of five repeated writes, and a get/tidy-style rewrite (Load, replace "+
			"Requirements, Write, Load) keeps name, version and ignore. Non-trivial = some string needs quoting/escaping or a requirement name has a "+
			"non-plain rune. Distinct by case JSON.",
		"strings are valid UTF-8 (TOML cannot carry anything else)",
	)
	var err error
	scratch, err = os.MkdirTemp("", "c19-")
	if err != nil {
		panic(err)
	}
	code := m.Run()
	os.RemoveAll(scratch)
	run.Finish(code)
	os.Exit(code)
}

type Req struct {
	Name, Path, Version string
}

type Case struct {
	Name    string   `json:"name"`
	Version string   `json:"version"`
	Ignore  []string `json:"ignore"`
	Reqs    []Req    `json:"reqs"`
	NewReqs []Req    `json:"newreqs"` // requirements written by the simulated get/tidy rewrite
	Bulk    int      `json:"bulk,omitempty"` // that many further plain requirements (bulk00000 ...): large files
	Pad     int      `json:"pad,omitempty"`  // one further ignore pattern of that many bytes
}

func clip(b []byte) string {
	if len(b) > 3000 {
		return string(b[:1500]) + fmt.Sprintf("\n... (%d bytes) ...\n", len(b)) + string(b[len(b)-1000:])
	}
	return string(b)
}

func (c Case) config(reqs []Req) *project.Config {
	cfg := &project.Config{Name: c.Name, Version: c.Version, Ignore: c.Ignore}
	if len(reqs) > 0 {
		cfg.Requirements = map[string]project.RequirementConfig{}
		for _, r := range reqs {
			cfg.Requirements[r.Name] = project.RequirementConfig{Path: r.Path, Version: r.Version}
		}
	}
	return cfg
}

// refCleanPath is the clean form of a requirement path, written independently of the code under
// test: the cleaned path, plus "@major" unless the major is absent, v0 or v1.
func refCleanPath(p string) string {
	major := ""
	for i := len(p) - 1; i >= 0 && p[i] != '/'; i-- {
		if p[i] == '@' {
			p, major = p[:i], p[i+1:]
			break
		}
	}
	p = path.Clean(p)
	if major == "" || major == "v0" || major == "v1" {
		return p
	}
	return p + "@" + major
}

func normalize(c *project.Config) project.Config {
	out := *c
	if len(out.Ignore) == 0 {
		out.Ignore = nil
	}
	if len(out.Requirements) == 0 {
		out.Requirements = nil
	}
	return out
}

func plain(s string) bool {
	for _, r := range s {
		if !(r >= 'A' && r <= 'Z' || r >= 'a' && r <= 'z' || r >= '0' && r <= '9' || r == '_' || r == '-') {
			return false
		}
	}
	return true
}

func needsEscape(s string) bool {
	for _, r := range s {
		if r < 0x20 || r == '"' || r == '\\' || r == '\'' || r == 0x7f || r > 0x7e {
			return true
		}
	}
	return false
}

func exec(c Case) (v ev.Verdict) {
	defer func() {
		if r := recover(); r != nil {
			v = ev.Failf("panic", "panic: %v", r)
		}
	}()
	if c.Bulk > 0 || c.Pad > 0 {
		v.Classes = append(v.Classes, "large-file")
		reqs := append([]Req{}, c.Reqs...)
		for i := 0; i < c.Bulk; i++ {
			reqs = append(reqs, Req{fmt.Sprintf("bulk%05d", i), fmt.Sprintf("example.org/bulk/p%05d", i), "v1.0.0"})
		}
		c.Reqs = reqs
		if c.Pad > 0 {
			c.Ignore = append(append([]string{}, c.Ignore...), strings.Repeat("x", c.Pad))
		}
	}
	all := append([]string{c.Name, c.Version}, c.Ignore...)
	for _, r := range append(append([]Req{}, c.Reqs...), c.NewReqs...) {
		all = append(all, r.Name, r.Path, r.Version)
		if r.Name == "" || refCleanPath(r.Path) != r.Path || !semver.IsValid(r.Version) || semver.Canonical(r.Version) != r.Version {
			return ev.Verdict{Skip: "requirement-outside-domain"}
		}
		if !plain(r.Name) {
			v.NonTrivial = true
			v.Classes = append(v.Classes, "quoted-key")
		}
	}
	for _, s := range all {
		if !utf8.ValidString(s) {
			return ev.Verdict{Skip: "invalid-utf8"}
		}
		if needsEscape(s) {
			v.NonTrivial = true
		}
	}
	if len(c.Reqs) > 0 {
		v.Classes = append(v.Classes, "has-requirements")
	}
	if len(c.Ignore) > 0 {
		v.Classes = append(v.Classes, "has-ignore")
	}
	if c.Name == "" {
		v.Classes = append(v.Classes, "empty-name")
	}

	cfg := c.config(c.Reqs)
	p1 := filepath.Join(scratch, "a.toml")
	if err := project.WriteConfigFile(p1, cfg); err != nil {
		return ev.Failf("write-error", "WriteConfigFile failed: %v", err)
	}
	b1, _ := os.ReadFile(p1)
	loaded, err := project.LoadConfigFile(p1)
	if err != nil {
		return ev.Failf("load-error", "LoadConfigFile(WriteConfigFile(c)) failed: %v\nfile:\n%s", err, clip(b1))
	}
	if !reflect.DeepEqual(normalize(loaded), normalize(cfg)) {
		return ev.Failf("roundtrip-differs", "Load(Write(c)) != c (%d / %d requirements)\nfile:\n%s", len(normalize(cfg).Requirements), len(normalize(loaded).Requirements), clip(b1))
	}
	p2 := filepath.Join(scratch, "b.toml")
	if err := project.WriteConfigFile(p2, loaded); err != nil {
		return ev.Failf("write-error", "second WriteConfigFile failed: %v", err)
	}
	b2, _ := os.ReadFile(p2)
	if !bytes.Equal(b1, b2) {
		return ev.Failf("rewrite-differs", "Write(Load(Write(c))) differs from Write(c):\n%s\n---\n%s", clip(b1), clip(b2))
	}
	// "writing again produces identical bytes" every time, not just once (entries are kept in maps)
	if len(c.Reqs) > 1 && c.Bulk == 0 {
		for i := 0; i < 4; i++ {
			if err := project.WriteConfigFile(p2, loaded); err != nil {
				return ev.Failf("write-error", "repeated WriteConfigFile failed: %v", err)
			}
			if b3, _ := os.ReadFile(p2); !bytes.Equal(b1, b3) {
				return ev.Failf("rewrite-differs", "writing the loaded configuration again (attempt %d) differs from the first file:\n%s\n---\n%s", i+2, clip(b1), clip(b3))
			}
		}
	}
	// get/tidy style rewrite: load, replace the requirements, write, load
	loaded.Requirements = c.config(c.NewReqs).Requirements
	if err := project.WriteConfigFile(p1, loaded); err != nil {
		return ev.Failf("write-error", "rewrite failed: %v", err)
	}
	b3, _ := os.ReadFile(p1)
	again, err := project.LoadConfigFile(p1)
	if err != nil {
		return ev.Failf("load-error", "load after get/tidy-style rewrite failed: %v\nfile:\n%s", err, clip(b3))
	}
	want := normalize(c.config(c.NewReqs))
	if !reflect.DeepEqual(normalize(again), want) {
		return ev.Failf("rewrite-loses", "get/tidy-style rewrite lost something\n want   %#v\n loaded %#v\nfile:\n%s", want, normalize(again), clip(b3))
	}
	return v
}

// runes that Unicode case folding maps onto ASCII letters (and similar traps for "looks plain" tests)
var folding = []rune{0x212A, 0x017F, 0x0130, 0x0131, 0x1E9E, 0xFF21, 0xFF41, 0x00B5, 0x03C2, 0x2126, 0x00DF}

var hostile = []rune{'\'', '"', '\\', '\n', '\r', '\t', 0, 0x7f, 0x85, 0x2028, '#', '=', '[', ']', '{', '}', '.', ' ', 'a', 'b', 'Z', '0', '_', '-', 'é', '\'', '"', ',', 0x1f, 0xfeff, 0x10ffff, '\b', '\f', 'u', 'x'}

func genString(t *rapid.T, minLen int) string {
	switch rapid.IntRange(0, 5).Draw(t, "sclass") {
	case 0:
		return rapid.StringMatching(`[a-zA-Z0-9_-]{1,8}`).Draw(t, "plain")
	case 1:
		s := rapid.String().Draw(t, "any")
		if len(s) < minLen {
			s += "x"
		}
		if !utf8.ValidString(s) {
			s = strings.ToValidUTF8(s, "?")
		}
		return s
	case 5:
		// plain-looking: ASCII bare-key characters plus one or two case-folding oddities
		base := rapid.StringMatching(`[a-zA-Z0-9_-]{0,6}`).Draw(t, "fbase")
		r := []rune(base)
		n := rapid.IntRange(1, 2).Draw(t, "nfold")
		for i := 0; i < n; i++ {
			pos := rapid.IntRange(0, len(r)).Draw(t, "fpos")
			f := rapid.SampledFrom(folding).Draw(t, "frune")
			r = append(r[:pos:pos], append([]rune{f}, r[pos:]...)...)
		}
		return string(r)
	case 2:
		return rapid.SampledFrom([]string{"'''", `"""`, `'`, `"`, `\`, `\\`, "\n", "a\nb", " ", ".", "a.b", "a b", "#", "\"'\"", "''''", `A`, "\r\n", "\x00", "true", "1", "1e3", "[a]", "{a=1}", "a=b"}).Draw(t, "fixed")
	default:
		return rapid.StringOfN(rapid.RuneFrom(hostile), minLen, 10, -1).Draw(t, "hostile")
	}
}

var versions = []string{"v1.0.0", "v0.0.0", "v1.2.3", "v2.0.0", "v10.20.30", "v19.0.1", "v100.0.0", "v20.1.0", "v9.9.9", "v1.0.0-alpha", "v1.0.0-alpha.1", "v1.0.0-0.3.7", "v1.0.0-x.7.z.92", "v0.0.0-20250130180140-a8830bbe58fc", "v3.1.4-rc.1"}

func genReqs(t *rapid.T, label string) []Req {
	n := rapid.IntRange(0, 4).Draw(t, label)
	seen := map[string]bool{}
	var out []Req
	for i := 0; i < n; i++ {
		name := genString(t, 1)
		if len(out) > 0 && rapid.IntRange(0, 2).Draw(t, "variant") == 2 {
			// a near-twin of an earlier name: other letter case, one letter case-toggled, a trailing
			// space or dot, composed vs decomposed accent
			prev := out[rapid.IntRange(0, len(out)-1).Draw(t, "twinof")].Name
			switch rapid.IntRange(0, 5).Draw(t, "twin") {
			case 0:
				name = strings.ToUpper(prev)
			case 1:
				name = strings.ToLower(prev)
			case 2:
				r := []rune(prev)
				i := rapid.IntRange(0, len(r)-1).Draw(t, "togglepos")
				if unicode.IsUpper(r[i]) {
					r[i] = unicode.ToLower(r[i])
				} else {
					r[i] = unicode.ToUpper(r[i])
				}
				name = string(r)
			case 3:
				name = prev + " "
			case 4:
				name = prev + "."
			default:
				name = prev + "\u0301"
			}
		}
		if name == "" || seen[name] {
			continue
		}
		seen[name] = true
		segs := rapid.IntRange(1, 4).Draw(t, "segs")
		parts := make([]string, segs)
		for j := range parts {
			parts[j] = rapid.SampledFrom([]string{"example.org", "a", "b-c", "github.com", "x_y", "p1", "Q"}).Draw(t, "seg")
		}
		ver := rapid.SampledFrom(versions).Draw(t, "ver")
		p := strings.Join(parts, "/")
		if m := semver.Major(ver); m != "v0" && m != "v1" && rapid.Bool().Draw(t, "suffix") {
			p += "@" + m
		}
		out = append(out, Req{Name: name, Path: refCleanPath(p), Version: ver})
	}
	return out
}

func genCase(t *rapid.T) Case {
	c := Case{}
	if rapid.IntRange(0, 4).Draw(t, "hasname") != 4 {
		c.Name = genString(t, 0)
	}
	if rapid.Bool().Draw(t, "hasversion") {
		c.Version = genString(t, 0)
		if rapid.IntRange(0, 2).Draw(t, "vershape") == 2 {
			// the project's own version is free text: things that look like versions without being canonical
			c.Version = rapid.SampledFrom([]string{"v1", "v1.2", "v1.2.3+build.5", "1.2.3", "v01.2.3", "v1.2.3-rc.1+meta", "v0", "v2.0", "V1.0.0", "v1.2.3 ", "v1.0.0", "latest", "v1.2.3.4"}).Draw(t, "version")
		}
	}
	ni := rapid.IntRange(0, 3).Draw(t, "nignore")
	for i := 0; i < ni; i++ {
		c.Ignore = append(c.Ignore, genString(t, 0))
	}
	c.Reqs = genReqs(t, "nreqs")
	c.NewReqs = genReqs(t, "nnew")
	if rapid.IntRange(0, 249).Draw(t, "large") == 42 {
		// files of tens of kilobytes to a few megabytes
		c.Bulk = rapid.SampledFrom([]int{0, 300, 3000, 12000, 25000}).Draw(t, "bulk")
		c.Pad = rapid.SampledFrom([]int{0, 70000, 1200000}).Draw(t, "pad")
	}
	return c
}

func TestC19(t *testing.T) {
	ev.Explore(run, t, "roundtrip", run.N(12000, 150000), genCase, exec)
	_ = fmt.Sprint
}
