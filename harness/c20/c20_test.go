package c20

import (
	"bytes"
	"fmt"
	"os"
	"path/filepath"
	"sync"
	"testing"
	"time"

	dawn "github.com/pgavlin/dawn"
	"github.com/pgavlin/dawn/internal/verifhook"
	"github.com/pgavlin/dawn/label"
	"github.com/pgavlin/dawn/verif/cosched"
	"github.com/pgavlin/dawn/verif/ev"
	"github.com/pgavlin/dawn/verif/rungraph"
	"go.starlark.net/starlark"
	"pgregory.net/rapid"
)

var run *ev.Run
var proj *dawn.Project

func TestMain(m *testing.M) {
	run = ev.Start("C20", "exploration",
		"a real Cache() value is obtained through Project.REPLEnv; rapid draws 2-6 caller goroutines, each making 1-3 once(key, callable) calls over 1-3 "+
			"keys, an outcome pattern per callable invocation (succeed with a fresh unique value or, in a third of the cases, with None / False / 0 / the empty string / fail), 0-2 scheduling points inside the callable, and a "+
			"schedule: choice vector for the cooperative token scheduler over once's scheduling points (entry, after the read-locked miss, around both lock "+
			"acquisitions) or a delay table for free-running execution. Oracle per key: among calls that returned successfully at most one callable "+
			"invocation succeeded; every successful caller holds the identical value object; a failed call leaves the key absent (a later call invokes the "+
			"callable again); no confirmed deadlock. Non-trivial = >=2 callers passed the fast-path miss for the same key before the first store. "+
			"Distinct by case JSON.",
		"windows without a scheduling point are only reached by delay injection and -race (thorough)",
	)
	dir, err := os.MkdirTemp("", "c20-")
	if err != nil {
		panic(err)
	}
	os.WriteFile(filepath.Join(dir, "dawn.toml"), []byte("name = \"t\"\n"), 0o644)
	os.WriteFile(filepath.Join(dir, "BUILD.dawn"), []byte("def f():\n    pass\ntarget(name=\"t\", function=f)\n"), 0o644)
	proj, err = dawn.Load(dir, &dawn.LoadOptions{})
	if err != nil {
		panic(err)
	}
	code := m.Run()
	os.RemoveAll(dir)
	run.Finish(code)
	os.Exit(code)
}

type Call struct {
	Key   int `json:"key"`
	Cache int `json:"cache,omitempty"` // which of the two Cache objects
	// Nest: while computing, the callable itself calls once(k<NestKey>) on the OTHER cache (a cached
	// computation that consults a second cache); -1 = no nested call
	NestKey int `json:"nestkey"`
}

// ck is the composite key of a call: cache * 100 + key.
func (c Call) ck() int { return (c.Cache%2)*100 + c.Key }

type Case struct {
	Callers  [][]Call       `json:"callers"`
	Outcomes []bool         `json:"outcomes"`       // per callable invocation index (global order): true = fail
	Vals     []int          `json:"vals,omitempty"` // per invocation index: kind of value a succeeding callable returns (0 = fresh list)
	Yields   int            `json:"yields"`
	Prefill  int            `json:"prefill,omitempty"` // keys already held by both caches before the callers start
	Pol      cosched.Policy `json:"pol"`
}

type obs struct {
	mu        sync.Mutex
	invoked   map[int]int              // key -> callable invocations
	succeeded map[int][]starlark.Value // key -> values returned by successful invocations
	ninv      int
	missed    map[int]int // key -> callers past the fast-path miss before first store
	stored    map[int]bool
	results   map[int][]starlark.Value // key -> values returned to callers
	errs      int
	problems  []string
}

func exec(c Case) (v ev.Verdict) {
	pkg, _ := label.Parse("//")
	var out bytes.Buffer
	thread, globals := proj.REPLEnv(&out, pkg)
	_ = thread
	var onces [2]starlark.Value
	for i := range onces {
		cv, err := starlark.Call(&starlark.Thread{Name: "mk"}, globals["Cache"], nil, nil)
		if err != nil {
			return ev.Verdict{Skip: "cache-constructor-failed"}
		}
		onces[i], err = cv.(starlark.HasAttrs).Attr("once")
		if err != nil || onces[i] == nil {
			return ev.Verdict{Skip: "no-once"}
		}
	}
	o := &obs{invoked: map[int]int{}, succeeded: map[int][]starlark.Value{}, missed: map[int]int{}, stored: map[int]bool{}, results: map[int][]starlark.Value{}}

	// a cache that already holds many other keys (whatever it does at particular sizes happens under the callers)
	for i := 0; i < c.Prefill; i++ {
		for _, once := range onces {
			pre := starlark.NewBuiltin("prefill", func(*starlark.Thread, *starlark.Builtin, starlark.Tuple, []starlark.Tuple) (starlark.Value, error) {
				return starlark.MakeInt(i), nil
			})
			if _, err := starlark.Call(&starlark.Thread{Name: "prefill"}, once, starlark.Tuple{starlark.String(fmt.Sprintf("pre%d", i)), pre}, nil); err != nil {
				return ev.Failf("prefill-failed", "once(\"pre%d\") on an idle cache fails: %v", i, err)
			}
		}
	}

	s := cosched.New(c.Pol)
	s.Install()
	defer cosched.Uninstall()
	for ci, calls := range c.Callers {
		calls := calls
		s.Go(fmt.Sprintf("caller%d", ci), func() {
			th := &starlark.Thread{Name: fmt.Sprintf("caller%d", ci)}
			for _, call := range calls {
				call := call
				key := call.ck()
				var mkfn func(key int, nest *Call) *starlark.Builtin
				mkfn = func(key int, nest *Call) *starlark.Builtin {
					return starlark.NewBuiltin("callable", func(cth *starlark.Thread, _ *starlark.Builtin, _ starlark.Tuple, _ []starlark.Tuple) (starlark.Value, error) {
						o.mu.Lock()
						idx := o.ninv
						o.ninv++
						o.invoked[key]++
						o.mu.Unlock()
						for i := 0; i < c.Yields; i++ {
							verifhook.Yield("callable.body")
						}
						if nest != nil {
							// the computation consults the other cache on the same thread
							starlark.Call(cth, onces[nest.Cache%2], starlark.Tuple{starlark.String(fmt.Sprintf("k%d", nest.Key)), mkfn(nest.ck(), nil)}, nil)
						}
						if idx < len(c.Outcomes) && c.Outcomes[idx] {
							return nil, fmt.Errorf("callable %d fails", idx)
						}
						var val starlark.Value = starlark.NewList([]starlark.Value{starlark.MakeInt(idx)}) // fresh, identity-comparable
						if idx < len(c.Vals) {
							// what a callable without a return statement, or a cheap probe, yields: falsy singletons
							switch c.Vals[idx] {
							case 1:
								val = starlark.None
							case 2:
								val = starlark.False
							case 3:
								val = starlark.MakeInt(0)
							case 4:
								val = starlark.String("")
							}
						}
						o.mu.Lock()
						o.succeeded[key] = append(o.succeeded[key], val)
						o.mu.Unlock()
						return val, nil
					})
				}
				var nest *Call
				if call.NestKey >= 0 && call.Cache%2 == 0 {
					nest = &Call{Key: call.NestKey, Cache: 1, NestKey: -1}
				}
				fn := mkfn(key, nest)
				res, err := starlark.Call(th, onces[call.Cache%2], starlark.Tuple{starlark.String(fmt.Sprintf("k%d", call.Key)), fn}, nil)
				o.mu.Lock()
				if err != nil {
					o.errs++
				} else {
					o.results[key] = append(o.results[key], res)
				}
				o.mu.Unlock()
			}
		})
	}
	res := s.Wait(30 * time.Second)
	v.Classes = append(v.Classes, "mode:"+c.Pol.Mode)
	switch {
	case c.Prefill >= 64:
		v.Classes = append(v.Classes, "prefilled>=64")
	case c.Prefill > 0:
		v.Classes = append(v.Classes, "prefilled<64")
	}
	if res.TimedOut {
		return ev.Verdict{Skip: "watchdog-inconclusive"}
	}
	if res.Livelock {
		return ev.Failf("livelock", "%s", res.Report)
	}
	if res.Deadlock {
		return ev.Failf("deadlock", "callers of once deadlock: %s", res.Report)
	}
	// non-triviality from the trace: callers that passed "once.missed" for a key before ... (approximated by
	// more than one invocation-or-lock attempt): count callers per key that reached the slow path
	slow := 0
	for _, e := range s.Trace() {
		if len(e) > 0 && bytes.Contains([]byte(e), []byte("yield once.missed")) {
			slow++
		}
	}
	if slow >= 2 {
		v.Classes = append(v.Classes, "slow-path>=2")
	}
	for key, vals := range o.succeeded {
		if len(vals) > 1 {
			return ev.Failf("computed-twice", "key k%d: the callable succeeded %d times (invoked %d times); once must compute a key at most once", key, len(vals), o.invoked[key])
		}
	}
	for key, rs := range o.results {
		if len(o.succeeded[key]) == 0 {
			return ev.Failf("value-from-nowhere", "key k%d: a caller received %v but no callable invocation succeeded", key, rs[0])
		}
		for _, r := range rs {
			if r != o.succeeded[key][0] {
				return ev.Failf("different-values", "key k%d: callers received different values (%v vs %v)", key, r, o.succeeded[key][0])
			}
		}
	}
	// a failed call caches nothing: afterwards a fresh call must invoke the callable again
	keys := map[int]bool{}
	for _, calls := range c.Callers {
		for _, call := range calls {
			keys[call.ck()] = true
			if call.NestKey >= 0 && call.Cache%2 == 0 {
				keys[Call{Key: call.NestKey, Cache: 1}.ck()] = true
			}
		}
	}
	for key := range keys {
		if len(o.succeeded[key]) > 0 {
			continue
		}
		invoked := false
		probe := starlark.NewBuiltin("probe", func(*starlark.Thread, *starlark.Builtin, starlark.Tuple, []starlark.Tuple) (starlark.Value, error) {
			invoked = true
			return starlark.String("probe"), nil
		})
		r, err := starlark.Call(&starlark.Thread{Name: "probe"}, onces[key/100], starlark.Tuple{starlark.String(fmt.Sprintf("k%d", key%100)), probe}, nil)
		if err != nil || !invoked || r != starlark.String("probe") {
			return ev.Failf("failure-cached", "key k%d: every callable failed, yet a later once call returned (%v, %v) without invoking its callable", key, r, err)
		}
		v.Classes = append(v.Classes, "retry-after-failure")
	}
	// concurrency witness: two callers were past the miss for the same key before the first store
	perKey := map[int]int{}
	for _, calls := range c.Callers {
		seen := map[int]bool{}
		for _, call := range calls {
			if !seen[call.ck()] {
				seen[call.ck()] = true
				perKey[call.ck()]++
			}
		}
	}
	for _, n := range perKey {
		if n >= 2 && slow >= 2 {
			v.NonTrivial = true
		}
	}
	return v
}

func gen(t *rapid.T) Case {
	nc := rapid.IntRange(2, 6).Draw(t, "ncallers")
	nk := rapid.IntRange(1, 3).Draw(t, "nkeys")
	c := Case{Yields: rapid.IntRange(0, 2).Draw(t, "yields")}
	switch rapid.IntRange(0, 3).Draw(t, "prefillclass") {
	case 2:
		// around powers of two (tables that grow, fold or rehash at a size)
		c.Prefill = (1 << rapid.IntRange(2, 10).Draw(t, "prefillpow")) - rapid.IntRange(0, 4).Draw(t, "prefilloff")
	case 3:
		c.Prefill = rapid.IntRange(1, 300).Draw(t, "prefill")
	}
	two := rapid.IntRange(0, 2).Draw(t, "twocaches") == 2 // two Cache objects, computations of one may consult the other
	total := 0
	for i := 0; i < nc; i++ {
		n := rapid.IntRange(1, 3).Draw(t, "ncalls")
		calls := make([]Call, n)
		for j := range calls {
			calls[j] = Call{Key: rapid.IntRange(0, nk-1).Draw(t, "key"), NestKey: -1}
			if two {
				calls[j].Cache = rapid.IntRange(0, 1).Draw(t, "cache")
				// only computations of the first cache consult the second: the caches hold their lock while a
				// callable runs, so nesting in both directions is a lock-order inversion of the caller's making
				if calls[j].Cache == 0 && rapid.IntRange(0, 2).Draw(t, "nest") == 2 {
					calls[j].NestKey = rapid.IntRange(0, nk-1).Draw(t, "nestkey")
				}
			}
		}
		total += 2 * n // nested computations draw outcomes too
		c.Callers = append(c.Callers, calls)
	}
	c.Outcomes = make([]bool, total)
	if rapid.IntRange(0, 2).Draw(t, "falsy") == 2 {
		c.Vals = make([]int, total)
		for i := range c.Vals {
			c.Vals[i] = rapid.IntRange(0, 4).Draw(t, "val")
		}
	}
	for i := range c.Outcomes {
		c.Outcomes[i] = rapid.IntRange(0, 3).Draw(t, "fails") == 3
	}
	c.Pol = rungraph.GenPolicy(t, 3)
	return c
}

func TestC20(t *testing.T) {
	ev.Explore(run, t, "once", run.N(3000, 60000), gen, exec)
}
