// Package cosched is a cooperative token scheduler (and a jitter injector) driven by the
// verifhook call sites in github.com/pgavlin/dawn. In sched mode exactly one registered
// goroutine runs between two hook calls and every scheduling decision is taken from a
// generated choice vector, so a schedule is plain data that rapid can shrink and a replay
// file can repeat. Deadlock is decided exactly: no token holder, nothing runnable, no
// pending spawn, and every registered goroutine parked in a sync primitive (confirmed from
// goroutine stack dumps), never by a timeout.
package cosched

import (
	"bytes"
	"fmt"
	"runtime"
	"sort"
	"strconv"
	"strings"
	"sync"
	"sync/atomic"
	"time"

	"github.com/pgavlin/dawn/internal/verifhook"
)

// Policy is the plain-data description of a schedule.
type Policy struct {
	Mode    string `json:"mode"`              // "random" | "preempt" | "starve" | "jitter"
	Choices []int  `json:"choices,omitempty"` // choice vector, used cyclically
	// mode "pct" (probabilistic concurrency testing, Burckhardt et al.): goroutine number i (creation
	// order) gets priority Prio[i mod len]; the runnable goroutine with the highest priority always runs;
	// at the scheduling points listed in Preempt the running goroutine drops below everyone else.
	Prio     []int  `json:"prio,omitempty"`
	MaxSteps int    `json:"maxsteps,omitempty"` // overrides the livelock bound for cases that legitimately need more scheduling points
	FairAge  int    `json:"fairage,omitempty"`  // overrides the number of scheduling points a runnable goroutine may be passed over (default 48)
	Lifo     bool   `json:"lifo,omitempty"`     // default choice = the most recently created runnable goroutine (depth-first) instead of the oldest
	Park     []bool `json:"park,omitempty"`     // mode preempt: whether the i-th preemption also stalls the goroutine until nothing else can run
	Preempt  []int  `json:"preempt,omitempty"`  // step numbers at which the running goroutine is preempted (mode preempt)
	Delays   []int  `json:"delays,omitempty"`   // jitter: delay classes, indexed by call count
}

const (
	stRunnable = iota
	stRunning
	stBlocked
)

type gor struct {
	id    int64
	seq   int
	name  string
	state int
	site  string
	since int // step at which it became runnable
	// parked (mode "starve"): preempted and passed over, also by the fairness rule, until no other
	// goroutine can run
	parked bool
	prio   int // mode "pct": the runnable goroutine with the highest priority runs
}

// S is one scheduler instance; install it for the duration of one case.
type S struct {
	mu   sync.Mutex
	cond *sync.Cond

	pol     Policy
	jitter  bool
	gs      map[int64]*gor
	cur     *gor
	pending int
	nextSeq int
	step    int
	ci      int
	gen     uint64 // bumped on every hook event
	calls   atomic.Int64

	trace    []string
	Steps    int
	Blocks   int
	Switches int
	MaxLive  int

	everRegistered bool
	ParkedChecks   int
	aborted        bool
	livelock       bool
	sameRun        int // consecutive scheduling points without a switch

	crash func(site, label string)
}

// New creates a scheduler for one case.
func New(pol Policy) *S {
	s := &S{pol: pol, gs: map[int64]*gor{}, jitter: pol.Mode == "jitter"}
	s.cond = sync.NewCond(&s.mu)
	return s
}

// SetCrash installs the crash-point callback.
func (s *S) SetCrash(f func(site, label string)) { s.crash = f }

// The hook handler is a process-wide dispatcher: it forwards to the scheduler of the current
// case and retires ("zombie") goroutines of earlier cases that were abandoned after a
// deadlock, livelock or watchdog verdict, so that they can never run on unobserved.
var (
	currentS   atomic.Pointer[S]
	zombies    sync.Map // goid -> struct{}
	nZombies   atomic.Int64
	installOne sync.Once
)

type dispatcher struct{}

func reap() {
	if nZombies.Load() > 0 {
		if _, dead := zombies.Load(goid()); dead {
			runtime.Goexit()
		}
	}
}

func (dispatcher) Yield(site string) {
	reap()
	if s := currentS.Load(); s != nil {
		s.Yield(site)
	}
}
func (dispatcher) Block(site string) {
	reap()
	if s := currentS.Load(); s != nil {
		s.Block(site)
	}
}
func (dispatcher) Unblock(site string) {
	reap()
	if s := currentS.Load(); s != nil {
		s.Unblock(site)
	}
}
func (dispatcher) Spawn() {
	if s := currentS.Load(); s != nil {
		s.Spawn()
	}
}
func (dispatcher) Begin(site string) {
	if s := currentS.Load(); s != nil {
		s.Begin(site)
	}
}
func (dispatcher) End() {
	if s := currentS.Load(); s != nil {
		s.End()
	}
}
func (dispatcher) Crash(site, label string) {
	if s := currentS.Load(); s != nil {
		s.Crash(site, label)
	}
}

// Install makes s the scheduler of the current case.
func (s *S) Install() {
	installOne.Do(func() { verifhook.Set(dispatcher{}) })
	currentS.Store(s)
}

// Uninstall ends the current case. Goroutines of the case that are still alive (only after a
// deadlock / livelock / watchdog verdict) are retired at their next hook call.
func Uninstall() {
	if s := currentS.Swap(nil); s != nil {
		s.retire()
	}
}

func (s *S) retire() {
	s.mu.Lock()
	for id := range s.gs {
		zombies.Store(id, struct{}{})
		nZombies.Add(1)
	}
	s.aborted = true
	s.cond.Broadcast()
	s.mu.Unlock()
}

// maxSteps is MaxSteps unless the policy of the case sets its own bound (large graphs).
func (s *S) maxSteps() int {
	if s.pol.MaxSteps > 0 {
		return s.pol.MaxSteps
	}
	return MaxSteps
}

// MaxSteps bounds the scheduling points of one case; beyond it the case is a livelock under a
// fair schedule (sched mode) or is abandoned as inconclusive (jitter mode).
const MaxSteps = 400000

// fairAge is the number of scheduling points a runnable goroutine may be passed over.
const fairAge = 48

func goid() int64 {
	var buf [64]byte
	n := runtime.Stack(buf[:], false)
	// "goroutine 123 ["
	b := buf[10:n]
	i := bytes.IndexByte(b, ' ')
	if i < 0 {
		return -1
	}
	id, _ := strconv.ParseInt(string(b[:i]), 10, 64)
	return id
}

func (s *S) log(g *gor, what, site string) {
	s.gen++
	if len(s.trace) < 4000 {
		s.trace = append(s.trace, fmt.Sprintf("g%d(%s) %s %s", g.seq, g.name, what, site))
	}
}

func (s *S) choice(n int) int {
	if n <= 1 {
		return 0
	}
	if len(s.pol.Choices) == 0 {
		return 0
	}
	c := s.pol.Choices[s.ci%len(s.pol.Choices)]
	s.ci++
	if c < 0 {
		c = -c
	}
	return c % n
}

func (s *S) runnable() []*gor {
	var out, parked []*gor
	for _, g := range s.gs {
		if g.state == stRunnable {
			if g.parked {
				parked = append(parked, g)
			} else {
				out = append(out, g)
			}
		}
	}
	if len(out) == 0 && len(parked) > 0 {
		// nothing else can run: the starved goroutines come back (they keep their place in line:
		// since is reset so that the fairness rule does not fire at once)
		for _, g := range parked {
			g.parked = false
			g.since = s.step
		}
		out = parked
	}
	sort.Slice(out, func(i, j int) bool { return out[i].seq < out[j].seq })
	if s.pol.Mode == "pct" {
		sort.Slice(out, func(i, j int) bool { return out[i].prio > out[j].prio })
	}
	if s.pol.Lifo {
		// newest goroutine first: index 0 (the default choice) is the most recently created one
		for i, j := 0, len(out)-1; i < j; i, j = i+1, j-1 {
			out[i], out[j] = out[j], out[i]
		}
	}
	return out
}

// dispatch hands a free token to a runnable goroutine. Caller holds s.mu.
func (s *S) dispatch() {
	if s.cur != nil || s.pending > 0 {
		return
	}
	r := s.runnable()
	if len(r) == 0 {
		return
	}
	g := r[s.choice(len(r))]
	g.state = stRunning
	s.cur = g
	s.Switches++
	s.cond.Broadcast()
}

// awaitToken waits for the token; it returns false when the case was abandoned (the caller
// must release s.mu and end the goroutine).
func (s *S) awaitToken(g *gor) bool {
	for s.cur != g {
		if s.aborted {
			return false
		}
		s.cond.Wait()
	}
	g.state = stRunning
	return true
}

func (s *S) register(name string) *gor {
	g := &gor{id: goid(), seq: s.nextSeq, name: name, state: stRunnable, since: s.step}
	if len(s.pol.Prio) > 0 {
		g.prio = s.pol.Prio[g.seq%len(s.pol.Prio)]*1000 - g.seq // distinct
	}
	s.nextSeq++
	s.everRegistered = true
	s.gs[g.id] = g
	if len(s.gs) > s.MaxLive {
		s.MaxLive = len(s.gs)
	}
	return g
}

// Go runs fn as a registered goroutine (the "main" goroutine of the case).
func (s *S) Go(name string, fn func()) {
	s.mu.Lock()
	s.pending++
	s.mu.Unlock()
	go func() {
		s.Begin(name)
		defer s.End()
		fn()
	}()
}

func (s *S) delay() {
	n := s.calls.Add(1)
	if len(s.pol.Delays) == 0 {
		return
	}
	switch d := s.pol.Delays[int(n)%len(s.pol.Delays)]; {
	case d <= 0:
	case d == 1:
		runtime.Gosched()
	case d <= 4:
		for i := 0; i < d*300; i++ {
			_ = i
		}
		runtime.Gosched()
	default:
		time.Sleep(time.Duration(d*7) * time.Microsecond)
	}
}

// ---- verifhook.Handler -----------------------------------------------------------------

func (s *S) Yield(site string) {
	if s.jitter {
		if s.calls.Load() > int64(s.maxSteps())*4 {
			s.mu.Lock()
			s.livelock = true
			s.cond.Broadcast()
			s.mu.Unlock()
		}
		s.delay()
		return
	}
	id := goid()
	s.mu.Lock()
	defer s.mu.Unlock()
	g := s.gs[id]
	if g == nil || s.cur != g {
		return
	}
	if s.aborted {
		runtime.Goexit() // the deferred Unlock runs
	}
	s.step++
	s.Steps++
	s.sameRun++
	if s.step > s.maxSteps() {
		s.livelock = true
		s.cond.Broadcast()
		zombies.Store(id, struct{}{})
		nZombies.Add(1)
		runtime.Goexit() // the deferred Unlock runs
	}
	s.log(g, "yield", site)
	for s.pending > 0 {
		s.cond.Wait()
	}
	r := s.runnable()
	if len(r) == 0 {
		return
	}
	var next *gor
	// fairness: a goroutine that has been runnable for fairAge scheduling points goes next
	oldest := r[0]
	for _, x := range r {
		if x.since < oldest.since {
			oldest = x
		}
	}
	age := fairAge
	if s.pol.FairAge > 0 {
		age = s.pol.FairAge
	}
	if s.step-oldest.since > age {
		next = oldest
	} else {
		switch s.pol.Mode {
		case "pct":
			for _, p := range s.pol.Preempt {
				if p == s.step {
					g.prio = -s.step // below every initial priority and every earlier drop
				}
			}
			if r[0].prio <= g.prio {
				return // still the highest
			}
			next = r[0]
		case "starve":
			// like preempt, but the preempted goroutine is not scheduled again until every other
			// goroutine is blocked or done: one goroutine stalls at an arbitrary point for as long
			// as possible (what a descheduled OS thread looks like to the others)
			hit := false
			for _, p := range s.pol.Preempt {
				if p == s.step {
					hit = true
				}
			}
			if !hit {
				return
			}
			next = r[s.choice(len(r))]
			g.parked = true
		case "preempt":
			hit := false
			for i, p := range s.pol.Preempt {
				if p == s.step {
					hit = true
					if i < len(s.pol.Park) && s.pol.Park[i] {
						g.parked = true // this preemption stalls the goroutine (see "starve")
					}
				}
			}
			if !hit {
				return
			}
			next = r[s.choice(len(r))]
		default:
			k := s.choice(len(r) + 1)
			if k == len(r) {
				return
			}
			next = r[k]
		}
	}
	g.state, g.site, g.since = stRunnable, site, s.step
	next.state = stRunning
	s.cur = next
	s.sameRun = 0
	s.Switches++
	s.cond.Broadcast()
	if !s.awaitToken(g) {
		runtime.Goexit() // the deferred Unlock runs
	}
}

func (s *S) Block(site string) {
	id := goid()
	s.mu.Lock()
	defer s.mu.Unlock()
	g := s.gs[id]
	if g == nil {
		return
	}
	s.log(g, "block", site)
	s.Blocks++
	g.state, g.site = stBlocked, site
	if s.jitter {
		return
	}
	if s.cur == g {
		s.cur = nil
		s.dispatch()
		if s.cur == nil {
			s.cond.Broadcast() // wake Wait: possible deadlock
		}
	}
}

func (s *S) Unblock(site string) {
	if s.jitter {
		id := goid()
		s.mu.Lock()
		if g := s.gs[id]; g != nil {
			g.state = stRunning
			s.gen++
		}
		s.mu.Unlock()
		return
	}
	id := goid()
	s.mu.Lock()
	g := s.gs[id]
	if g == nil {
		s.mu.Unlock()
		return
	}
	s.log(g, "unblock", site)
	g.state, g.since = stRunnable, s.step
	if s.cur == nil {
		// let other in-flight goroutines settle so that the choice is among all of them
		s.mu.Unlock()
		runtime.Gosched()
		runtime.Gosched()
		s.mu.Lock()
	}
	s.dispatch()
	ok := s.awaitToken(g)
	s.mu.Unlock()
	if !ok {
		runtime.Goexit()
	}
}

func (s *S) Spawn() {
	s.mu.Lock()
	s.pending++
	s.gen++
	s.mu.Unlock()
}

func (s *S) Begin(site string) {
	s.mu.Lock()
	g := s.register(site)
	s.pending--
	s.log(g, "begin", site)
	s.cond.Broadcast()
	if s.jitter {
		g.state = stRunning
		s.mu.Unlock()
		return
	}
	s.dispatch()
	ok := s.awaitToken(g)
	s.mu.Unlock()
	if !ok {
		runtime.Goexit()
	}
}

func (s *S) End() {
	id := goid()
	s.mu.Lock()
	g := s.gs[id]
	if g != nil {
		s.log(g, "end", "")
		delete(s.gs, id)
		if s.cur == g {
			s.cur = nil
		}
		if !s.jitter {
			s.dispatch()
		}
		s.cond.Broadcast()
	}
	s.mu.Unlock()
}

func (s *S) Crash(site, label string) {
	if s.crash != nil {
		s.crash(site, label)
	}
}

// ---- waiting for the end of a case --------------------------------------------------------

// Result of waiting for a case.
type Result struct {
	Deadlock bool
	Livelock bool // more than MaxSteps scheduling points under a fair schedule
	TimedOut bool
	Report   string
}

var parkedStates = []string{"sync.Cond.Wait", "sync.Mutex.Lock", "sync.RWMutex", "semacquire", "sync.WaitGroup.Wait", "chan receive", "chan send", "select"}

// parked reports, for each id, whether the goroutine is parked in a blocking primitive.
func parked(ids map[int64]bool) (all bool, report string) {
	buf := make([]byte, 1<<20)
	n := runtime.Stack(buf, true)
	buf = buf[:n]
	found := 0
	var sb strings.Builder
	all = true
	for _, blk := range strings.Split(string(buf), "\n\n") {
		if !strings.HasPrefix(blk, "goroutine ") {
			continue
		}
		hdr := blk
		if i := strings.IndexByte(blk, '\n'); i >= 0 {
			hdr = blk[:i]
		}
		f := strings.Fields(hdr)
		if len(f) < 3 {
			continue
		}
		id, err := strconv.ParseInt(f[1], 10, 64)
		if err != nil || !ids[id] {
			continue
		}
		found++
		state := hdr[strings.IndexByte(hdr, '['):]
		isParked := false
		for _, p := range parkedStates {
			if strings.Contains(state, p) {
				isParked = true
			}
		}
		if !isParked {
			all = false
		}
		// first frames of dawn code for the report
		lines := strings.Split(blk, "\n")
		where := ""
		for _, l := range lines[1:] {
			if strings.Contains(l, "github.com/pgavlin/dawn") && !strings.Contains(l, "verifhook") && !strings.Contains(l, "cosched") {
				where = strings.TrimSpace(l)
				if i := strings.IndexByte(where, '('); i > 0 {
					where = where[:i]
				}
				break
			}
		}
		fmt.Fprintf(&sb, "  goroutine %d %s at %s\n", id, state, where)
	}
	if found != len(ids) {
		all = false
	}
	return all, sb.String()
}

// Wait blocks until every registered goroutine has ended, a deadlock is confirmed, or the
// watchdog expires (inconclusive).
func (s *S) Wait(watchdog time.Duration) Result {
	deadline := time.Now().Add(watchdog)
	stop := make(chan struct{})
	defer close(stop)
	go func() {
		// fallback wake-ups for the deadlock check and the watchdog
		tk := time.NewTicker(2 * time.Millisecond)
		defer tk.Stop()
		for {
			select {
			case <-stop:
				return
			case <-tk.C:
				s.mu.Lock()
				s.cond.Broadcast()
				s.mu.Unlock()
			}
		}
	}()
	s.mu.Lock()
	defer s.mu.Unlock()
	for {
		n, pend := len(s.gs), s.pending
		if n == 0 && pend == 0 && s.everRegistered {
			return Result{}
		}
		if s.livelock {
			if s.jitter {
				return Result{TimedOut: true, Report: "more than 4*MaxSteps hook calls in free-running mode (inconclusive)\n"}
			}
			return Result{Livelock: true, Report: fmt.Sprintf("the build has not terminated after %d scheduling points under a fair schedule; last events:\n%s", s.step, s.tail(30))}
		}
		candidate := false
		if n > 0 && pend == 0 {
			if s.jitter {
				candidate = s.allBlocked()
			} else {
				candidate = s.cur == nil && len(s.runnable()) == 0
			}
		}
		if candidate {
			gen := s.gen
			ids := map[int64]bool{}
			for id := range s.gs {
				ids[id] = true
			}
			confirmed, report := 0, ""
			for i := 0; i < 3; i++ {
				s.mu.Unlock()
				all, rep := parked(ids)
				if all {
					if s.jitter {
						time.Sleep(5 * time.Millisecond)
					} else {
						time.Sleep(300 * time.Microsecond)
					}
				}
				s.mu.Lock()
				s.ParkedChecks++
				if !all || s.gen != gen || len(s.gs) != n {
					break
				}
				confirmed++
				report = rep
			}
			if confirmed == 3 {
				return Result{Deadlock: true, Report: "every goroutine of the case is parked and nothing can wake it:\n" + report + "last events:\n" + s.tail(40)}
			}
			if s.gen == gen {
				// an in-flight goroutine has not reached its next hook yet
				s.mu.Unlock()
				runtime.Gosched()
				s.mu.Lock()
				if time.Now().Before(deadline) {
					continue
				}
			}
		}
		if time.Now().After(deadline) {
			ids := map[int64]bool{}
			for id := range s.gs {
				ids[id] = true
			}
			s.mu.Unlock()
			_, rep := parked(ids)
			s.mu.Lock()
			return Result{TimedOut: true, Report: "watchdog expired (inconclusive):\n" + rep + "last events:\n" + s.tail(40)}
		}
		s.cond.Wait()
	}
}

// allBlocked reports whether every registered goroutine is inside a Block/Unblock window
// (jitter mode). Caller holds s.mu.
func (s *S) allBlocked() bool {
	for _, g := range s.gs {
		if g.state != stBlocked {
			return false
		}
	}
	return true
}

func (s *S) tail(n int) string {
	t := s.trace
	if len(t) > n {
		t = t[len(t)-n:]
	}
	return "  " + strings.Join(t, "\n  ") + "\n"
}

// Trace returns the recorded events.
func (s *S) Trace() []string {
	s.mu.Lock()
	defer s.mu.Unlock()
	return append([]string{}, s.trace...)
}
