// Package diffcheck is the reconstruction oracle for diff.Diff results: it rebuilds both values
// from the edits and checks old/new sides at every nesting level.
package diffcheck

import (
	"fmt"

	"github.com/pgavlin/dawn/diff"
	"go.starlark.net/starlark"
)

// ---- oracle ----------------------------------------------------------------------------

// Checker accumulates statistics over one check.
type Checker struct {
	SeqPairs int // sequence pairs with both sides non-empty
}

func same(a, b starlark.Value) bool {
	if a == nil || b == nil {
		return false
	}
	if a.Type() != b.Type() {
		return false
	}
	eq, err := starlark.EqualDepth(a, b, 100000)
	return err == nil && eq
}

func equal(a, b starlark.Value) bool {
	// the default comparison depth (10) is too shallow for function environments
	eq, err := starlark.EqualDepth(a, b, 100000)
	return err == nil && eq
}

// Faithful checks that d is a faithful diff of (old, new), which are known to be unequal; it returns "" or the first problem.
func (ck *Checker) Faithful(d diff.ValueDiff, old, new starlark.Value, path string) string {
	if d == nil {
		return path + ": nil diff for unequal values"
	}
	if !same(d.Old(), old) {
		return fmt.Sprintf("%s: Old() is %s, want the old value %s", path, Trunc(d.Old()), Trunc(old))
	}
	if !same(d.New(), new) {
		return fmt.Sprintf("%s: New() is %s, want the new value %s", path, Trunc(d.New()), Trunc(new))
	}
	oldS, oldIsS := old.(starlark.Sliceable)
	newS, newIsS := new.(starlark.Sliceable)
	oldM, oldIsM := old.(starlark.IterableMapping)
	newM, newIsM := new.(starlark.IterableMapping)
	switch dd := d.(type) {
	case *diff.SliceableDiff:
		if !oldIsS || !newIsS {
			return path + ": SliceableDiff for non-sequences"
		}
		return ck.seq(dd, oldS, newS, path)
	case *diff.MappingDiff:
		if !oldIsM || !newIsM {
			return path + ": MappingDiff for non-mappings"
		}
		return ck.mapping(dd, oldM, newM, path)
	case *diff.LiteralDiff:
		if (oldIsS && newIsS) || (oldIsM && newIsM) {
			return path + ": LiteralDiff for two sequences / two mappings"
		}
		return ""
	default:
		// another kind of diff (the package has a SetDiff type): the statement speaks of sequences
		// and mappings only, so for any other pair of values the sides checked above are all that is
		// claimed
		if (oldIsS && newIsS) || (oldIsM && newIsM) {
			return fmt.Sprintf("%s: diff type %T for two sequences / two mappings", path, d)
		}
		return ""
	}
}

func (ck *Checker) seq(d *diff.SliceableDiff, old, new starlark.Sliceable, path string) string {
	if old.Len() > 0 && new.Len() > 0 {
		ck.SeqPairs++
	}
	i, j := 0, 0
	for n, ev := range d.Edits() {
		e, ok := ev.(*diff.Edit)
		if !ok {
			return fmt.Sprintf("%s: edit %d is a %T", path, n, ev)
		}
		p := fmt.Sprintf("%s.edit[%d:%s]", path, n, string(e.Kind()))
		k := e.Len()
		switch e.Kind() {
		case diff.EditKindCommon:
			if i+k > old.Len() || j+k > new.Len() {
				return fmt.Sprintf("%s: common run of %d overruns (i=%d/%d j=%d/%d)", p, k, i, old.Len(), j, new.Len())
			}
			for x := 0; x < k; x++ {
				if !equal(e.Index(x), old.Index(i+x)) || !equal(e.Index(x), new.Index(j+x)) {
					return fmt.Sprintf("%s: common value %s is not old[%d]=%s and new[%d]=%s", p, Trunc(e.Index(x)), i+x, Trunc(old.Index(i+x)), j+x, Trunc(new.Index(j+x)))
				}
			}
			i, j = i+k, j+k
		case diff.EditKindDelete:
			if i+k > old.Len() {
				return fmt.Sprintf("%s: delete of %d overruns old (i=%d/%d)", p, k, i, old.Len())
			}
			for x := 0; x < k; x++ {
				if !equal(e.Index(x), old.Index(i+x)) {
					return fmt.Sprintf("%s: deleted value %s is not old[%d]=%s", p, Trunc(e.Index(x)), i+x, Trunc(old.Index(i+x)))
				}
			}
			i += k
		case diff.EditKindAdd:
			if j+k > new.Len() {
				return fmt.Sprintf("%s: add of %d overruns new (j=%d/%d)", p, k, j, new.Len())
			}
			for x := 0; x < k; x++ {
				if !equal(e.Index(x), new.Index(j+x)) {
					return fmt.Sprintf("%s: added value %s is not new[%d]=%s", p, Trunc(e.Index(x)), j+x, Trunc(new.Index(j+x)))
				}
			}
			j += k
		case diff.EditKindReplace:
			for x := 0; x < k; x++ {
				el := e.Index(x)
				if el == starlark.None {
					if i >= old.Len() || j >= new.Len() || !equal(old.Index(i), new.Index(j)) {
						return fmt.Sprintf("%s[%d]: None (unchanged) but old[%d] != new[%d]", p, x, i, j)
					}
					i, j = i+1, j+1
					continue
				}
				vd, ok := el.(diff.ValueDiff)
				if !ok {
					return fmt.Sprintf("%s[%d]: is a %T", p, x, el)
				}
				if lit, ok := vd.(*diff.LiteralDiff); ok {
					lo, lok := lit.Old().(starlark.Sliceable)
					ln, nok := lit.New().(starlark.Sliceable)
					_, oStr := old.(starlark.String)
					_, oByt := old.(starlark.Bytes)
					_, nStr := new.(starlark.String)
					_, nByt := new.(starlark.Bytes)
					if lok && nok && (oStr || oByt) && (nStr || nByt) {
						// run literal: consumes its lengths from both sides
						if i+lo.Len() > old.Len() || j+ln.Len() > new.Len() {
							return fmt.Sprintf("%s[%d]: literal run overruns", p, x)
						}
						for y := 0; y < lo.Len(); y++ {
							if !equal(lo.Index(y), old.Index(i+y)) {
								return fmt.Sprintf("%s[%d]: literal old side %s is not old[%d:]", p, x, Trunc(lo), i)
							}
						}
						for y := 0; y < ln.Len(); y++ {
							if !equal(ln.Index(y), new.Index(j+y)) {
								return fmt.Sprintf("%s[%d]: literal new side %s is not new[%d:]", p, x, Trunc(ln), j)
							}
						}
						if lo.Len() == 0 && ln.Len() == 0 {
							return fmt.Sprintf("%s[%d]: empty literal replacement", p, x)
						}
						i, j = i+lo.Len(), j+ln.Len()
						continue
					}
				}
				if i >= old.Len() || j >= new.Len() {
					return fmt.Sprintf("%s[%d]: replacement overruns (i=%d/%d j=%d/%d)", p, x, i, old.Len(), j, new.Len())
				}
				if equal(old.Index(i), new.Index(j)) {
					return fmt.Sprintf("%s[%d]: a diff is reported for equal elements old[%d], new[%d]", p, x, i, j)
				}
				if msg := ck.Faithful(vd, old.Index(i), new.Index(j), fmt.Sprintf("%s[%d]", p, x)); msg != "" {
					return msg
				}
				i, j = i+1, j+1
			}
		default:
			return fmt.Sprintf("%s: unknown edit kind %q", p, e.Kind())
		}
	}
	if i != old.Len() || j != new.Len() {
		return fmt.Sprintf("%s: edits reproduce %d of %d old elements and %d of %d new elements", path, i, old.Len(), j, new.Len())
	}
	return ""
}

func (ck *Checker) mapping(d *diff.MappingDiff, old, new starlark.IterableMapping, path string) string {
	edits := d.Edits()
	count := 0
	for _, kv := range old.Items() {
		k, ov := kv[0], kv[1]
		nv, has, _ := new.Get(k)
		ev, hasEdit, _ := edits.Get(k)
		p := fmt.Sprintf("%s[%s]", path, Trunc(k))
		if !has {
			e, ok := ev.(*diff.Edit)
			if !hasEdit || !ok || e.Kind() != diff.EditKindDelete || e.Len() != 1 || !same(e.Index(0), ov) {
				return fmt.Sprintf("%s: removed key has edit %v, want delete of %s", p, ev, Trunc(ov))
			}
			count++
			continue
		}
		if equal(ov, nv) {
			if hasEdit {
				return fmt.Sprintf("%s: unchanged key has an edit %v", p, ev)
			}
			continue
		}
		e, ok := ev.(*diff.Edit)
		if !hasEdit || !ok || e.Kind() != diff.EditKindReplace || e.Len() != 1 {
			return fmt.Sprintf("%s: changed key has edit %v, want a replace", p, ev)
		}
		vd, ok := e.Index(0).(diff.ValueDiff)
		if !ok {
			return fmt.Sprintf("%s: replace payload is a %T", p, e.Index(0))
		}
		if msg := ck.Faithful(vd, ov, nv, p); msg != "" {
			return msg
		}
		count++
	}
	for _, kv := range new.Items() {
		k, nv := kv[0], kv[1]
		if _, has, _ := old.Get(k); has {
			continue
		}
		ev, hasEdit, _ := edits.Get(k)
		e, ok := ev.(*diff.Edit)
		if !hasEdit || !ok || e.Kind() != diff.EditKindAdd || e.Len() != 1 || !same(e.Index(0), nv) {
			return fmt.Sprintf("%s[%s]: added key has edit %v, want add of %s", path, Trunc(k), ev, Trunc(nv))
		}
		count++
	}
	n := 0
	it := edits.Iterate()
	var k starlark.Value
	for it.Next(&k) {
		n++
	}
	it.Done()
	if n != count {
		return fmt.Sprintf("%s: %d edits for %d added/removed/changed keys", path, n, count)
	}
	return ""
}

// Trunc renders a value briefly.
func Trunc(v starlark.Value) string {
	if v == nil {
		return "<nil>"
	}
	s := v.String()
	if len(s) > 80 {
		s = s[:80] + "..."
	}
	return v.Type() + " " + s
}
