// Package ev is the evidence collector, rapid driver and replay plumbing shared by all
// property checks.
//
// One process = one shard of one property. The process is configured through environment
// variables set by /verif/check:
//
//	VERIF_TIER    quick | thorough
//	VERIF_SEED    integer seed (already remapped so that it is never 0)
//	VERIF_OUT     directory that receives shard-<n>.json
//	VERIF_SHARD   shard index (0-based), VERIF_NSHARDS number of shards
//	VERIF_REPLAY  path of a replay file: run only that case, bypassing rapid
//	VERIF_SCALE   float multiplier of all case counts (default 1)
package ev

import (
	"crypto/sha256"
	"encoding/hex"
	"encoding/json"
	"flag"
	"fmt"
	"os"
	"path/filepath"
	"sort"
	"strconv"
	"strings"
	"sync"
	"testing"
	"time"

	"pgregory.net/rapid"
)

const VerifRoot = "/verif"

// Verdict is what an executor says about one case.
type Verdict struct {
	Fail       string   // non-empty: the property is violated on this case
	Sig        string   // signature of the failure, matched against known-findings
	NonTrivial bool     // by the rule stated in the evidence
	Classes    []string // generator / behaviour classes this case falls in
	Skip       string   // non-empty: case was not decided (precondition, budget); counted as excluded
}

func Failf(sig, format string, args ...any) Verdict {
	return Verdict{Fail: fmt.Sprintf(format, args...), Sig: sig}
}

type Finding struct {
	Status   string // known | fixed
	Property string
	Sig      string // known only
	Commit   string // fixed only
	Text     string
}

type Run struct {
	mu sync.Mutex

	Property    string
	Level       string
	Rule        string
	Assumptions []string

	Tier    string
	Seed    int64
	Shard   int
	NShards int
	Scale   float64
	OutDir  string
	Replay  string

	start time.Time

	evaluations int
	hashes      map[string]struct{}
	samples     []json.RawMessage
	classes     map[string]int
	excluded    map[string]int
	exhaustive  *bool
	extra       map[string]any

	violations []violation
	knownHit   map[string]int
	findings   []Finding

	replayDone bool
}

type violation struct {
	Check   string `json:"check"`
	Message string `json:"message"`
	Replay  string `json:"replay"`
	Sig     string `json:"sig,omitempty"`
}

func envInt(name string, def int64) int64 {
	if s := os.Getenv(name); s != "" {
		if v, err := strconv.ParseInt(s, 10, 64); err == nil {
			return v
		}
	}
	return def
}

// Start creates the collector of this process.
func Start(property, level, rule string, assumptions ...string) *Run {
	r := &Run{
		Property:    property,
		Level:       level,
		Rule:        rule,
		Assumptions: assumptions,
		Tier:        os.Getenv("VERIF_TIER"),
		Seed:        envInt("VERIF_SEED", 1),
		Shard:       int(envInt("VERIF_SHARD", 0)),
		NShards:     int(envInt("VERIF_NSHARDS", 1)),
		Scale:       1,
		OutDir:      os.Getenv("VERIF_OUT"),
		Replay:      os.Getenv("VERIF_REPLAY"),
		start:       time.Now(),
		hashes:      map[string]struct{}{},
		classes:     map[string]int{},
		excluded:    map[string]int{},
		extra:       map[string]any{},
		knownHit:    map[string]int{},
	}
	if r.Tier == "" {
		r.Tier = "quick"
	}
	if r.Seed == 0 {
		r.Seed = 424242
	}
	if s := os.Getenv("VERIF_SCALE"); s != "" {
		if f, err := strconv.ParseFloat(s, 64); err == nil && f > 0 {
			r.Scale = f
		}
	}
	if r.OutDir == "" {
		r.OutDir = filepath.Join(VerifRoot, ".work", property)
	}
	os.MkdirAll(r.OutDir, 0o755)
	r.findings = LoadFindings(property)
	return r
}

// LoadFindings parses /verif/known-findings.txt. Lines:
//
//	known: property=<id> sig=<signature> <what fails>
//	fixed: property=<id> <commit> <what failed>
func LoadFindings(property string) []Finding {
	data, err := os.ReadFile(filepath.Join(VerifRoot, "known-findings.txt"))
	if err != nil {
		return nil
	}
	var out []Finding
	for _, line := range strings.Split(string(data), "\n") {
		line = strings.TrimSpace(line)
		if line == "" || strings.HasPrefix(line, "#") {
			continue
		}
		var f Finding
		switch {
		case strings.HasPrefix(line, "known:"):
			f.Status = "known"
			line = strings.TrimSpace(line[len("known:"):])
		case strings.HasPrefix(line, "fixed:"):
			f.Status = "fixed"
			line = strings.TrimSpace(line[len("fixed:"):])
		default:
			continue
		}
		fields := strings.Fields(line)
		if len(fields) < 2 || !strings.HasPrefix(fields[0], "property=") {
			continue
		}
		f.Property = fields[0][len("property="):]
		rest := fields[1:]
		if f.Status == "known" {
			if !strings.HasPrefix(rest[0], "sig=") {
				continue
			}
			f.Sig = rest[0][len("sig="):]
		} else {
			f.Commit = rest[0]
		}
		f.Text = strings.Join(rest[1:], " ")
		if f.Property == property {
			out = append(out, f)
		}
	}
	return out
}

// KnownSig reports whether sig is listed as a known (unrepaired) finding of this property.
func (r *Run) KnownSig(sig string) bool {
	if sig == "" {
		return false
	}
	for _, f := range r.findings {
		if f.Status == "known" && f.Sig == sig {
			return true
		}
	}
	return false
}

// Quick reports whether this is the quick tier.
func (r *Run) Quick() bool { return r.Tier != "thorough" }

// N scales a case count: q for quick, th for thorough (per shard), times VERIF_SCALE.
func (r *Run) N(q, th int) int {
	n := q
	if !r.Quick() {
		n = th
	}
	n = int(float64(n) * r.Scale)
	if os.Getenv("VERIF_RACE") != "" {
		n /= 4 // the race detector slows the run down several times
	}
	if n < 1 {
		n = 1
	}
	return n
}

// ShardSeed is the rapid seed for this shard (never 0).
func (r *Run) ShardSeed(salt int64) int64 {
	s := r.Seed*1000 + int64(r.Shard) + salt*1_000_003
	if s == 0 {
		s = 1
	}
	return s
}

func canon(v any) []byte {
	b, err := json.Marshal(v)
	if err != nil {
		return []byte(fmt.Sprintf("%#v", v))
	}
	return b
}

// Record counts one executed case.
func (r *Run) Record(c any, v Verdict) {
	b := canon(c)
	r.mu.Lock()
	defer r.mu.Unlock()
	r.recordLocked(b, v)
}

func (r *Run) recordLocked(b []byte, v Verdict) {
	if v.Skip != "" {
		r.excluded[v.Skip]++
		return
	}
	r.evaluations++
	for _, c := range v.Classes {
		r.classes[c]++
	}
	if v.NonTrivial {
		h := sha256.Sum256(b)
		key := hex.EncodeToString(h[:8])
		if _, ok := r.hashes[key]; !ok {
			r.hashes[key] = struct{}{}
			if len(r.samples) < 5 && len(b) <= 6000 {
				r.samples = append(r.samples, json.RawMessage(append([]byte(nil), b...)))
			}
		}
	}
}

// Exclude counts a case withheld or skipped for the stated reason.
func (r *Run) Exclude(reason string, n int) {
	r.mu.Lock()
	r.excluded[reason] += n
	r.mu.Unlock()
}

// Class bumps a class counter outside of Record.
func (r *Run) Class(name string, n int) {
	r.mu.Lock()
	r.classes[name] += n
	r.mu.Unlock()
}

// Extra stores an additional coverage key.
func (r *Run) Extra(key string, v any) {
	r.mu.Lock()
	r.extra[key] = v
	r.mu.Unlock()
}

// SetExhaustive records whether the enumerated sub-space was covered completely.
func (r *Run) SetExhaustive(b bool) {
	r.mu.Lock()
	r.exhaustive = &b
	r.mu.Unlock()
}

type replayFile struct {
	Property string          `json:"property"`
	Check    string          `json:"check"`
	Message  string          `json:"message"`
	Sig      string          `json:"sig,omitempty"`
	Seed     int64           `json:"seed"`
	Case     json.RawMessage `json:"case"`
}

// Violation writes the replay file and registers the violation; returns the replay path.
func (r *Run) Violation(check string, c any, v Verdict) string {
	b := canon(c)
	h := sha256.Sum256(append([]byte(check+"\x00"), b...))
	dir := filepath.Join(VerifRoot, "replays")
	if d := os.Getenv("VERIF_REPLAY_DIR"); d != "" {
		dir = d
	}
	os.MkdirAll(dir, 0o755)
	path := filepath.Join(dir, fmt.Sprintf("%s-%s-%s.json", r.Property, check, hex.EncodeToString(h[:6])))
	rf := replayFile{Property: r.Property, Check: check, Message: v.Fail, Sig: v.Sig, Seed: r.Seed, Case: b}
	data, _ := json.MarshalIndent(rf, "", " ")
	os.WriteFile(path, data, 0o644)
	r.mu.Lock()
	r.violations = append(r.violations, violation{Check: check, Message: v.Fail, Replay: path, Sig: v.Sig})
	r.writeShard(1, false)
	if strings.Contains(v.Sig, "hang") {
		// a goroutine of the code under test is stuck or spinning in this process (it cannot be
		// stopped and may eat CPU and memory without bound): the verdict is on record, stop here
		fmt.Printf("VIOLATION-DETAIL property=%s check=%s sig=%s: %s\n", r.Property, check, v.Sig, firstLine(v.Fail))
		os.Exit(1)
	}
	r.mu.Unlock()
	fmt.Printf("VIOLATION-DETAIL property=%s check=%s sig=%s: %s\n", r.Property, check, v.Sig, firstLine(v.Fail))
	return path
}

func firstLine(s string) string {
	if i := strings.IndexByte(s, '\n'); i >= 0 {
		s = s[:i]
	}
	if len(s) > 400 {
		s = s[:400] + "..."
	}
	return s
}

// Explore runs prop over generated cases with rapid. gen draws a plain-data case, exec
// decides it. Known findings are counted, not raised. In replay mode only the saved case
// is executed (without rapid).
func Explore[C any](r *Run, t *testing.T, check string, checks int, gen func(*rapid.T) C, exec func(C) Verdict) {
	t.Helper()
	if r.Replay != "" {
		r.replay(t, check, func(raw json.RawMessage) (any, Verdict, error) {
			var c C
			if err := json.Unmarshal(raw, &c); err != nil {
				return nil, Verdict{}, err
			}
			return c, exec(c), nil
		})
		return
	}
	r.regress(t, check, func(raw json.RawMessage) (any, Verdict, error) {
		var c C
		if err := json.Unmarshal(raw, &c); err != nil {
			return nil, Verdict{}, err
		}
		return c, exec(c), nil
	})

	flag.Set("rapid.checks", strconv.Itoa(checks))
	flag.Set("rapid.seed", strconv.FormatInt(r.ShardSeed(int64(len(check))*31+int64(check[0])), 10))
	flag.Set("rapid.nofailfile", "true")
	flag.Set("rapid.shrinktime", "20s")

	var last *C
	var lastV Verdict
	ok := t.Run(check, func(t *testing.T) {
		rapid.Check(t, func(rt *rapid.T) {
			c := gen(rt)
			v := exec(c)
			if v.Fail != "" && r.KnownSig(v.Sig) {
				r.mu.Lock()
				r.knownHit[v.Sig]++
				r.mu.Unlock()
				r.Exclude("known-finding:"+v.Sig, 1)
				return
			}
			r.Record(c, v)
			if v.Fail != "" {
				cc := c
				if last == nil {
					// the first (unshrunk) failing case is put on record at once: should the process die
					// or be killed while rapid shrinks it, the verdict is already in the shard file
					r.Violation(check, c, v)
				}
				last, lastV = &cc, v
				rt.Fatalf("%s", v.Fail)
			}
		})
	})
	if !ok && last != nil {
		r.Violation(check, *last, lastV)
	} else if !ok {
		// rapid failed without a captured case (generator panic etc): infrastructure.
		r.mu.Lock()
		r.extra["infrastructure_failure_"+check] = true
		r.mu.Unlock()
	}
}

// Enumerate runs exec over an explicit list/stream of cases (bounded exhaustive spaces).
// next returns false when the space is exhausted.
func Enumerate[C any](r *Run, t *testing.T, check string, next func() (C, bool), exec func(C) Verdict) {
	t.Helper()
	if r.Replay != "" {
		r.replay(t, check, func(raw json.RawMessage) (any, Verdict, error) {
			var c C
			if err := json.Unmarshal(raw, &c); err != nil {
				return nil, Verdict{}, err
			}
			return c, exec(c), nil
		})
		return
	}
	r.regress(t, check, func(raw json.RawMessage) (any, Verdict, error) {
		var c C
		if err := json.Unmarshal(raw, &c); err != nil {
			return nil, Verdict{}, err
		}
		return c, exec(c), nil
	})
	nviol := 0
	for {
		c, ok := next()
		if !ok {
			break
		}
		v := exec(c)
		if v.Fail != "" && r.KnownSig(v.Sig) {
			r.mu.Lock()
			r.knownHit[v.Sig]++
			r.mu.Unlock()
			r.Exclude("known-finding:"+v.Sig, 1)
			continue
		}
		r.Record(c, v)
		if v.Fail != "" {
			nviol++
			if nviol <= 3 {
				r.Violation(check, c, v)
				t.Errorf("%s: %s", check, firstLine(v.Fail))
			}
		}
	}
}

// regress re-executes the committed regression cases of this check (/verif/regress: minimal
// failing cases of defects that were repaired, and of seeded changes) without the generator
// library, before any generated case. Shard 0 only.
func (r *Run) regress(t *testing.T, check string, run func(json.RawMessage) (any, Verdict, error)) {
	if r.Shard != 0 {
		return
	}
	files, _ := filepath.Glob(filepath.Join(VerifRoot, "regress", r.Property+"-"+check+"-*.json"))
	sort.Strings(files)
	for _, f := range files {
		data, err := os.ReadFile(f)
		if err != nil {
			continue
		}
		var rf replayFile
		if json.Unmarshal(data, &rf) != nil || rf.Check != check {
			continue
		}
		c, v, err := run(rf.Case)
		if err != nil {
			continue
		}
		r.Class("regression-case", 1)
		if v.Fail != "" && r.KnownSig(v.Sig) {
			r.mu.Lock()
			r.knownHit[v.Sig]++
			r.mu.Unlock()
			continue
		}
		r.Record(c, v)
		if v.Fail != "" {
			r.mu.Lock()
			r.violations = append(r.violations, violation{Check: check, Message: v.Fail, Replay: f, Sig: v.Sig})
			r.mu.Unlock()
			fmt.Printf("VIOLATION-DETAIL property=%s check=%s sig=%s: %s\n", r.Property, check, v.Sig, firstLine(v.Fail))
			t.Errorf("regression case %s violates: %s", filepath.Base(f), firstLine(v.Fail))
		}
	}
}

func (r *Run) replay(t *testing.T, check string, run func(json.RawMessage) (any, Verdict, error)) {
	data, err := os.ReadFile(r.Replay)
	if err != nil {
		t.Fatalf("replay: %v", err)
	}
	var rf replayFile
	if err := json.Unmarshal(data, &rf); err != nil {
		t.Fatalf("replay: %v", err)
	}
	if rf.Check != check {
		return
	}
	r.replayDone = true
	c, v, err := run(rf.Case)
	if err != nil {
		t.Fatalf("replay: %v", err)
	}
	r.Record(c, v)
	if v.Fail != "" {
		if r.KnownSig(v.Sig) {
			r.mu.Lock()
			r.knownHit[v.Sig]++
			r.mu.Unlock()
			return
		}
		r.mu.Lock()
		r.violations = append(r.violations, violation{Check: check, Message: v.Fail, Replay: r.Replay, Sig: v.Sig})
		r.mu.Unlock()
		fmt.Printf("VIOLATION-DETAIL property=%s check=%s sig=%s: %s\n", r.Property, check, v.Sig, firstLine(v.Fail))
		t.Errorf("replayed case still violates: %s", v.Fail)
	} else {
		fmt.Printf("REPLAY-OK property=%s check=%s\n", r.Property, check)
	}
}

// KnownProbe runs the saved reproduction of a known finding: if it still fails with the
// listed signature, KNOWN-FINDING is printed (by the driver, from the shard file).
func KnownProbe[C any](r *Run, sig string, c C, exec func(C) Verdict) {
	if !r.KnownSig(sig) || r.Replay != "" {
		return
	}
	v := exec(c)
	r.mu.Lock()
	defer r.mu.Unlock()
	if v.Fail != "" && v.Sig == sig {
		r.knownHit[sig]++
	} else if _, ok := r.knownHit[sig]; !ok {
		r.knownHit[sig] = 0
	}
}

type shardFile struct {
	Property    string            `json:"property_id"`
	Tier        string            `json:"tier"`
	Seed        int64             `json:"seed"`
	Shard       int               `json:"shard"`
	Level       string            `json:"level"`
	Rule        string            `json:"rule"`
	Assumptions []string          `json:"assumptions"`
	Evaluations int               `json:"evaluations"`
	Hashes      []string          `json:"hashes"`
	Samples     []json.RawMessage `json:"samples"`
	Classes     map[string]int    `json:"classes"`
	Excluded    map[string]int    `json:"excluded"`
	Exhaustive  *bool             `json:"exhaustive,omitempty"`
	Extra       map[string]any    `json:"extra"`
	Violations  []violation       `json:"violations"`
	KnownHit    map[string]int    `json:"known_hit"`
	KnownText   map[string]string `json:"known_text"`
	WallS       float64           `json:"wall_s"`
	Complete    bool              `json:"complete"`
}

// Finish writes the shard file. Call from TestMain after m.Run().
func (r *Run) Finish(exitCode int) {
	r.mu.Lock()
	defer r.mu.Unlock()
	r.writeShard(exitCode, true)
}

// writeShard writes the shard file. It is also called (complete=false) right after a violation has been
// recorded, so that a process that dies or is killed later - a panic on a goroutine of the code under
// test, a hang that runs into the shard's time limit - still leaves its verdict behind. Caller holds r.mu.
func (r *Run) writeShard(exitCode int, complete bool) {
	sf := shardFile{
		Property: r.Property, Tier: r.Tier, Seed: r.Seed, Shard: r.Shard, Level: r.Level, Rule: r.Rule,
		Assumptions: r.Assumptions, Evaluations: r.evaluations, Samples: r.samples, Classes: r.classes,
		Excluded: r.excluded, Exhaustive: r.exhaustive, Extra: r.extra, Violations: r.violations,
		KnownHit: r.knownHit, KnownText: map[string]string{}, WallS: time.Since(r.start).Seconds(),
		Complete: complete,
	}
	for _, f := range r.findings {
		if f.Status == "known" {
			sf.KnownText[f.Sig] = f.Text
		}
	}
	for h := range r.hashes {
		sf.Hashes = append(sf.Hashes, h)
	}
	sort.Strings(sf.Hashes)
	if exitCode != 0 && len(r.violations) == 0 {
		sf.Extra["test_exit_code_without_violation"] = exitCode
	}
	data, _ := json.Marshal(sf)
	os.WriteFile(filepath.Join(r.OutDir, fmt.Sprintf("shard-%d.json", r.Shard)), data, 0o644)
}

// Main is the TestMain body shared by all property packages.
func Main(m *testing.M, r *Run) {
	code := m.Run()
	r.Finish(code)
	os.Exit(code)
}
