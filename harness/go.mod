module github.com/pgavlin/dawn/verif

go 1.23.0

require (
	github.com/pgavlin/dawn v0.0.0
	go.starlark.net v0.0.0-20240329153429-e6e8e7ce1b7a
	golang.org/x/mod v0.17.0
	pgregory.net/rapid v1.3.0
)

require (
	dario.cat/mergo v1.0.0 // indirect
	github.com/ProtonMail/go-crypto v1.1.3 // indirect
	github.com/cloudflare/circl v1.3.7 // indirect
	github.com/cyphar/filepath-securejoin v0.3.6 // indirect
	github.com/emirpasic/gods v1.18.1 // indirect
	github.com/go-git/gcfg v1.5.1-0.20230307220236-3a3c6141e376 // indirect
	github.com/go-git/go-billy/v5 v5.6.1 // indirect
	github.com/go-git/go-git/v5 v5.13.1 // indirect
	github.com/golang/groupcache v0.0.0-20210331224755-41bb18bfe9da // indirect
	github.com/jbenet/go-context v0.0.0-20150711004518-d14ea06fba99 // indirect
	github.com/kevinburke/ssh_config v1.2.0 // indirect
	github.com/mitchellh/go-homedir v1.1.0 // indirect
	github.com/pelletier/go-toml/v2 v2.2.0 // indirect
	github.com/pgavlin/mvs v0.0.0-20250123095647-090776a03765 // indirect
	github.com/pjbgf/sha1cd v0.3.0 // indirect
	github.com/rjeczalik/notify v0.9.3 // indirect
	github.com/sergi/go-diff v1.3.2-0.20230802210424-5b0b94c5c0d3 // indirect
	github.com/skeema/knownhosts v1.3.0 // indirect
	github.com/spf13/pflag v1.0.5 // indirect
	github.com/xanzy/ssh-agent v0.3.3 // indirect
	golang.org/x/crypto v0.31.0 // indirect
	golang.org/x/net v0.33.0 // indirect
	golang.org/x/sync v0.10.0 // indirect
	golang.org/x/sys v0.28.0 // indirect
	golang.org/x/term v0.27.0 // indirect
	gopkg.in/warnings.v0 v0.1.2 // indirect
	mvdan.cc/sh/v3 v3.3.0 // indirect
)

replace github.com/pgavlin/dawn => /repo

replace go.starlark.net => github.com/pgavlin/starlark-go v0.0.0-20250130180140-a8830bbe58fc
