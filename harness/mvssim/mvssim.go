// Package mvssim generates requirement universes (one fake repository with several
// projects, majors and tagged versions), serves them through vcs.Repository, and provides
// an independent reference for minimal version selection and version queries.
package mvssim

import (
	"context"
	"errors"
	"fmt"
	"iter"
	"os"
	"path"
	"path/filepath"
	"slices"
	"sort"
	"strings"
	"time"

	"github.com/pgavlin/dawn/internal/mvs"
	"github.com/pgavlin/dawn/internal/project"
	"github.com/pgavlin/dawn/internal/vcs"
	"golang.org/x/mod/module"
	"golang.org/x/mod/semver"
	"pgregory.net/rapid"
)

// Addr is the address of the universe's repository: an arbitrary host (found by probing path prefixes)
// or, for WellKnown universes, a hosting service whose repository layout dawn knows.
func (u *Universe) Addr() string {
	if u.WellKnown {
		return "github.com/u/r"
	}
	return "example.org/u"
}

// Tag is one tagged version of one project: a commit of the repository.
type Tag struct {
	Proj    int      `json:"proj"`           // project index
	Version string   `json:"version"`        // canonical semver; its major selects the path suffix
	Name    string   `json:"name,omitempty"` // project name written in its dawn.toml
	Reqs    []int    `json:"reqs,omitempty"` // indexes of required tags
	Names   []string `json:"names,omitempty"`
	// Also is a second version tag of the same project on the same commit (a release candidate promoted to a
	// release without a new commit, say); same major as Version. It serves the same project file.
	Also string `json:"also,omitempty"`
}

// top is the highest version tag on the commit.
func (t Tag) top() string {
	if t.Also != "" && semver.Compare(t.Also, t.Version) > 0 {
		return t.Also
	}
	return t.Version
}

// Universe is a plain-data description of a repository.
type Universe struct {
	NProj    int    `json:"nproj"`
	Tags     []Tag  `json:"tags"`               // commit order
	Branches []int  `json:"branches,omitempty"` // branch i ("br<i>") points at commit Branches[i]
	Untagged []int  `json:"untagged,omitempty"` // extra commits (no tag) appended after tag index (value = project touched)
	Default  string `json:"default,omitempty"`
	// WellKnown: the repository lives on a well-known hosting service (several projects of one repository
	// are then found through one address)
	WellKnown bool `json:"wellknown,omitempty"`
	// RootProj: project 0 lives at the root of the repository (its path is the repository's address)
	RootProj bool `json:"rootproj,omitempty"`
	// CaseTwins: every odd project lives in the directory of its predecessor spelled in upper case (p0, P0, p2, P2 ...)
	CaseTwins bool `json:"casetwins,omitempty"`
}

func ProjDir(i int) string { return fmt.Sprintf("p%d", i) }

// dirOf is the directory inside the repository of the project with the given path.
func (u *Universe) dirOf(p string) string {
	p, _ = SplitPathMajor(p)
	if p == u.Addr() {
		return ""
	}
	return strings.TrimPrefix(p, u.Addr()+"/")
}

// Dir is the directory of project i inside the repository: "p<i>", or "" for project 0 of a universe
// whose first project lives at the root of the repository.
func (u *Universe) Dir(i int) string {
	if u.RootProj && i == 0 {
		return ""
	}
	if u.CaseTwins && i%2 == 1 {
		// the directory of the project before it in other letter case: two projects whose paths differ in case only
		return fmt.Sprintf("P%d", i-1)
	}
	return ProjDir(i)
}

// JoinPathMajor and SplitPathMajor spell and read project paths ("p" for majors v0 and v1, "p@vN" for the others).
// They are written from the documented convention, not taken from the code under test.
func JoinPathMajor(p, major string) string {
	if major == "" || major == "v0" || major == "v1" {
		return p
	}
	return p + "@" + major
}

func SplitPathMajor(p string) (string, string) {
	for i := len(p) - 1; i >= 0 && p[i] != '/'; i-- {
		if p[i] == '@' {
			return p[:i], p[i+1:]
		}
	}
	return p, ""
}

// CleanPath is the canonical spelling of a requirement path.
func CleanPath(p string) string {
	base, major := SplitPathMajor(p)
	return JoinPathMajor(path.Clean(base), major)
}

func (u *Universe) PathOf(t Tag) string {
	return JoinPathMajor(path.Join(u.Addr(), u.Dir(t.Proj)), semver.Major(t.Version))
}

func (u *Universe) MV(i int) module.Version {
	t := u.Tags[i]
	return module.Version{Path: u.PathOf(t), Version: t.Version}
}

// ---- vcs.Repository ---------------------------------------------------------------------

type revision struct {
	repo *Repo
	idx  int // commit index
}

func commitID(i int) string { return fmt.Sprintf("%012x%028x", i+1, 0) }

func (r *revision) ID() string       { return commitID(r.idx) }
func (r *revision) PseudoID() string { return commitID(r.idx)[:12] }
func (r *revision) When() time.Time  { return time.Unix(1_000_000+100*int64(r.idx+1), 0).UTC() }
func (r *revision) History() iter.Seq[vcs.Revision] {
	return func(yield func(vcs.Revision) bool) {
		for i := r.idx; i >= 0; i-- {
			if !yield(&revision{repo: r.repo, idx: i}) {
				return
			}
		}
	}
}

// Repo serves a Universe.
type Repo struct {
	U        *Universe
	versions []*vcs.Version
	// Permute, when non-nil, renames requirement names in every served dawn.toml
	// (metamorphic variation of declaration / sort order).
	NameSalt string
	Fetches  int
	// FailOnce, when >= 0, makes the first fetch of that project directory fail (a transient fault).
	FailOnce int
	failed   bool
	// SlowFetch makes every checkout take this long, with the project file present but empty meanwhile
	SlowFetch time.Duration
}

func NewRepo(u *Universe) *Repo {
	r := &Repo{U: u, FailOnce: -1}
	for i, t := range u.Tags {
		r.versions = append(r.versions, &vcs.Version{
			Version:     module.Version{Path: u.PathOf(t), Version: t.Version},
			ProjectPath: u.Dir(t.Proj),
			RevisionID:  commitID(i),
		})
		if t.Also != "" {
			r.versions = append(r.versions, &vcs.Version{
				Version:     module.Version{Path: u.PathOf(t), Version: t.Also},
				ProjectPath: u.Dir(t.Proj),
				RevisionID:  commitID(i),
			})
		}
	}
	slices.SortStableFunc(r.versions, func(a, b *vcs.Version) int { return semver.Compare(a.Version.Version, b.Version.Version) })
	return r
}

func (r *Repo) Path() string { return r.U.Addr() }
func (r *Repo) DefaultRef(ctx context.Context) (string, error) {
	if r.U.Default != "" {
		return r.U.Default, nil
	}
	return "main", nil
}
func (r *Repo) Versions(ctx context.Context) ([]*vcs.Version, error) { return r.versions, nil }

func (r *Repo) ncommits() int { return len(r.U.Tags) }

func (r *Repo) ResolveRef(ctx context.Context, ref string) (string, error) {
	if ref == "main" {
		return commitID(r.ncommits() - 1), nil
	}
	if strings.HasPrefix(ref, "br") {
		var i int
		if _, err := fmt.Sscanf(ref, "br%d", &i); err == nil && i >= 0 && i < len(r.U.Branches) {
			return commitID(r.U.Branches[i] % r.ncommits()), nil
		}
	}
	for i, t := range r.U.Tags {
		if ref == strings.TrimPrefix(r.U.Dir(t.Proj)+"/"+t.Version, "/") || t.Also != "" && ref == strings.TrimPrefix(r.U.Dir(t.Proj)+"/"+t.Also, "/") {
			return commitID(i), nil
		}
	}
	return "", errors.New("no such reference")
}

func (r *Repo) GetRevision(ctx context.Context, id string) (vcs.Revision, error) {
	for i := 0; i < r.ncommits(); i++ {
		if commitID(i) == id || commitID(i)[:12] == id {
			return &revision{repo: r, idx: i}, nil
		}
	}
	return nil, errors.New("no such revision")
}

// configAt returns the dawn.toml of project proj as of commit idx (latest tag commit of
// that project at or before idx).
func (r *Repo) configAt(proj, idx int) (*project.Config, bool) {
	for i := idx; i >= 0; i-- {
		t := r.U.Tags[i]
		if t.Proj != proj {
			continue
		}
		cfg := &project.Config{Name: t.Name, Version: t.Version}
		if len(t.Reqs) > 0 {
			cfg.Requirements = map[string]project.RequirementConfig{}
			for k, ri := range t.Reqs {
				mv := r.U.MV(ri % len(r.U.Tags))
				name := fmt.Sprintf("r%d", k)
				if k < len(t.Names) && t.Names[k] != "" {
					name = t.Names[k]
				}
				name = r.NameSalt + name
				for {
					if _, dup := cfg.Requirements[name]; !dup {
						break
					}
					name += "x"
				}
				cfg.Requirements[name] = project.RequirementConfig{Path: mv.Path, Version: mv.Version}
			}
		}
		return cfg, true
	}
	return nil, false
}

func (r *Repo) FetchRevision(ctx context.Context, projectPath string, rev vcs.Revision, destDir string) error {
	rv := rev.(*revision)
	var proj int
	if projectPath == "" || projectPath == "." {
		if !r.U.RootProj {
			return errors.New("no project at the root of this repository")
		}
		projectPath = ""
	} else {
		proj = -1
		for k := 0; k < r.U.NProj; k++ {
			if r.U.Dir(k) == projectPath && !(r.U.RootProj && k == 0) {
				proj = k
			}
		}
		if proj < 0 {
			return errors.New("no such project")
		}
	}
	cfg, ok := r.configAt(proj, rv.idx)
	if !ok {
		return errors.New("no such project at this revision")
	}
	if r.FailOnce == proj && !r.failed {
		r.failed = true
		return errors.New("injected transient fetch failure")
	}
	r.Fetches++
	dir := filepath.Join(destDir, filepath.FromSlash(projectPath))
	if err := os.MkdirAll(dir, 0o700); err != nil {
		return err
	}
	if r.SlowFetch > 0 {
		// a checkout takes time: the file exists, empty, before its contents arrive
		if f, err := os.Create(filepath.Join(dir, "dawn.toml")); err == nil {
			f.Close()
		}
		time.Sleep(r.SlowFetch)
	}
	return project.WriteConfigFile(filepath.Join(dir, "dawn.toml"), cfg)
}

// Dialer returns an mvs.Dialer serving the repository at its address.
func (r *Repo) Dialer() mvs.Dialer {
	return mvs.VerifDialFunc(func(ctx context.Context, kind, address string) (vcs.Repository, error) {
		if address == r.U.Addr() {
			return r, nil
		}
		return nil, fmt.Errorf("no repository at %q", address)
	})
}

// ---- reference MVS ----------------------------------------------------------------------

// RootReq is one named root requirement referring to a tag.
type RootReq struct {
	Name string `json:"name"`
	Tag  int    `json:"tag"`
	Ref  string `json:"ref,omitempty"` // "main" / "br<i>": require the tag's project at that branch head instead (often a pseudo-version)
}

func (u *Universe) RootConfig(reqs []RootReq) *project.Config {
	cfg := &project.Config{Name: "root", Requirements: map[string]project.RequirementConfig{}}
	for _, r := range reqs {
		mv := u.MV(r.Tag % len(u.Tags))
		if r.Ref != "" {
			if v, ok := u.RefVersion(mv.Path, r.Ref); ok {
				mv.Version = v
			}
		}
		cfg.Requirements[r.Name] = project.RequirementConfig{Path: mv.Path, Version: mv.Version}
	}
	return cfg
}

// tagIndex finds the tag of a module version (or -1; pseudo-versions have none).
func (u *Universe) tagIndex(mv module.Version) int {
	for i := range u.Tags {
		if u.MV(i) == mv || u.Tags[i].Also != "" && u.MV(i).Path == mv.Path && u.Tags[i].Also == mv.Version {
			return i
		}
	}
	return -1
}

// pseudoTag returns the index of the tag whose project file a pseudo-version of mv.Path serves, or -1.
func (u *Universe) pseudoTag(mv module.Version) int {
	if !module.IsPseudoVersion(mv.Version) {
		return -1
	}
	rev, err := module.PseudoVersionRev(mv.Version)
	if err != nil {
		return -1
	}
	dir := u.dirOf(mv.Path)
	for c := range u.Tags {
		if commitID(c)[:12] != rev {
			continue
		}
		for i := c; i >= 0; i-- {
			if u.Dir(u.Tags[i].Proj) == dir {
				return i
			}
		}
	}
	return -1
}

// RefBuildList is the reference: all (path, version) nodes reachable from the root
// requirements, then the semver maximum per path.
func (u *Universe) RefBuildList(reqs map[string]project.RequirementConfig) (map[string]string, bool) {
	sel := map[string]string{}
	seen := map[module.Version]bool{}
	var queue []module.Version
	names := make([]string, 0, len(reqs))
	for n := range reqs {
		names = append(names, n)
	}
	sort.Strings(names)
	for _, n := range names {
		queue = append(queue, module.Version{Path: reqs[n].Path, Version: reqs[n].Version})
	}
	ok := true
	for len(queue) > 0 {
		mv := queue[0]
		queue = queue[1:]
		if seen[mv] {
			continue
		}
		seen[mv] = true
		if cur, has := sel[mv.Path]; !has || semver.Compare(cur, mv.Version) < 0 {
			sel[mv.Path] = mv.Version
		}
		i := u.tagIndex(mv)
		if i < 0 {
			// a pseudo-version names a commit: the project's file there is that of its latest tag at
			// or before the commit
			i = u.pseudoTag(mv)
		}
		if i < 0 {
			ok = false // requirements unknown to the reference
			continue
		}
		for _, ri := range u.Tags[i].Reqs {
			queue = append(queue, u.MV(ri%len(u.Tags)))
		}
	}
	return sel, ok
}

// BranchCommit returns the commit a ref names ("main", "br<i>"), or -1.
func (u *Universe) BranchCommit(ref string) int {
	if ref == "main" {
		return len(u.Tags) - 1
	}
	var i int
	if _, err := fmt.Sscanf(ref, "br%d", &i); err == nil && strings.HasPrefix(ref, "br") && i >= 0 && i < len(u.Branches) {
		return u.Branches[i] % len(u.Tags)
	}
	return -1
}

// RefVersion is the reference resolution of a ref query for path p: the tag on the named
// commit itself if there is one (highest first), else a pseudo-version based on the closest
// tagged ancestor commit.
func (u *Universe) RefVersion(p, ref string) (string, bool) {
	c := u.BranchCommit(ref)
	if c < 0 {
		return "", false
	}
	_, major := SplitPathMajor(p)
	// the project's directory must exist at that commit, else nothing can be fetched
	dir := u.dirOf(p)
	exists := false
	for i := c; i >= 0; i-- {
		if u.Dir(u.Tags[i].Proj) == dir {
			exists = true
		}
	}
	if !exists {
		return "", false
	}
	for i := c; i >= 0; i-- {
		if u.MV(i).Path != p {
			continue
		}
		// a commit that carries two tags of the project is its higher version
		if i == c {
			return u.Tags[i].top(), true
		}
		rev := &revision{idx: c}
		return module.PseudoVersion(major, u.Tags[i].top(), rev.When(), rev.PseudoID()), true
	}
	rev := &revision{idx: c}
	return module.PseudoVersion(major, major, rev.When(), rev.PseudoID()), true
}

// TaggedVersions returns the tagged versions of a path in ascending semver order.
func (u *Universe) TaggedVersions(p string) []string {
	var out []string
	for i := range u.Tags {
		if mv := u.MV(i); mv.Path == p {
			out = append(out, mv.Version)
			if u.Tags[i].Also != "" {
				out = append(out, u.Tags[i].Also)
			}
		}
	}
	sort.SliceStable(out, func(i, j int) bool { return semver.Compare(out[i], out[j]) < 0 })
	return out
}

// Paths returns all project paths of the universe.
func (u *Universe) Paths() []string {
	seen := map[string]bool{}
	var out []string
	for i := range u.Tags {
		p := u.MV(i).Path
		if !seen[p] {
			seen[p] = true
			out = append(out, p)
		}
	}
	sort.Strings(out)
	return out
}

// ---- generator --------------------------------------------------------------------------

var versionPool = map[string][]string{
	"v0": {"v0.1.0", "v0.2.0", "v0.2.1", "v0.3.0-pre", "v0.9.0"},
	"v1": {"v1.0.0", "v1.0.1", "v1.1.0", "v1.1.1", "v1.2.0-rc.1", "v1.2.0", "v1.10.0", "v1.3.0-alpha"},
	"v2": {"v2.0.0", "v2.0.1", "v2.1.0", "v2.1.0-beta", "v2.3.4"},
	"v3": {"v3.0.0-pre", "v3.0.0", "v3.1.0"},
	// majors whose decimal spelling sorts before "2", between "2" and "9", and has three digits
	"v10":  {"v10.0.0", "v10.1.0", "v10.1.1-rc.1"},
	"v12":  {"v12.0.0", "v12.3.4"},
	"v20":  {"v20.0.0", "v20.1.0"},
	"v100": {"v100.0.0", "v100.0.1"},
}

var projNames = []string{"lib", "core", "", "lib", "util", "p"}

// GenUniverse draws a universe.
func GenUniverse(t *rapid.T) Universe {
	np := rapid.IntRange(2, 7).Draw(t, "nproj")
	u := Universe{NProj: np, WellKnown: rapid.IntRange(0, 2).Draw(t, "wellknown") == 2, RootProj: rapid.IntRange(0, 3).Draw(t, "rootproj") == 3,
		CaseTwins: rapid.IntRange(0, 4).Draw(t, "casetwins") == 4}
	used := map[string]bool{}
	ntags := rapid.IntRange(np, 3*np+2).Draw(t, "ntags")
	for i := 0; i < ntags; i++ {
		proj := i
		if i >= np {
			proj = rapid.IntRange(0, np-1).Draw(t, "proj")
		}
		major := rapid.SampledFrom([]string{"v1", "v1", "v2", "v1", "v0", "v3", "v2", "v1", "v1", "v2", "v1", "v0", "v3", "v2", "v10", "v12", "v20", "v100", "v10"}).Draw(t, "major")
		ver := rapid.SampledFrom(versionPool[major]).Draw(t, "ver")
		key := fmt.Sprintf("%d/%s", proj, ver)
		if used[key] {
			continue
		}
		used[key] = true
		tag := Tag{Proj: proj, Version: ver, Name: rapid.SampledFrom(projNames).Draw(t, "pname")}
		if rapid.IntRange(0, 5).Draw(t, "twotags") == 5 {
			// a second tag of the same major on this commit
			also := rapid.SampledFrom(versionPool[major]).Draw(t, "also")
			if k2 := fmt.Sprintf("%d/%s", proj, also); !used[k2] {
				used[k2] = true
				tag.Also = also
			}
		}
		u.Tags = append(u.Tags, tag)
	}
	for i := range u.Tags {
		nr := rapid.SampledFrom([]int{1, 0, 2, 1, 3, 2}).Draw(t, "nreq")
		for k := 0; k < nr; k++ {
			ri := rapid.IntRange(0, len(u.Tags)-1).Draw(t, "req")
			if u.PathOf(u.Tags[ri]) == u.PathOf(u.Tags[i]) {
				continue // a project does not require itself directly
			}
			u.Tags[i].Reqs = append(u.Tags[i].Reqs, ri)
			u.Tags[i].Names = append(u.Tags[i].Names, rapid.SampledFrom([]string{"", "zz", "a", "lib", "m.x", "0"}).Draw(t, "rname"))
		}
	}
	nb := rapid.IntRange(0, 2).Draw(t, "nbranch")
	for i := 0; i < nb; i++ {
		u.Branches = append(u.Branches, rapid.IntRange(0, len(u.Tags)-1).Draw(t, "branch"))
	}
	return u
}

var rootNames = []string{"lib", "core", "a", "util", "lib-1", "p1", "z", "dep", "lib@v2", "core-1"}

// GenRoot draws a root requirement set.
func GenRoot(t *rapid.T, u *Universe) []RootReq {
	n := rapid.SampledFrom([]int{2, 1, 3, 2, 4, 0, 3}).Draw(t, "nroot")
	seen := map[string]bool{}
	var out []RootReq
	for i := 0; i < n; i++ {
		name := rapid.SampledFrom(rootNames).Draw(t, "rootname")
		if seen[name] {
			continue
		}
		seen[name] = true
		rr := RootReq{Name: name, Tag: rapid.IntRange(0, len(u.Tags)-1).Draw(t, "roottag")}
		if rapid.IntRange(0, 4).Draw(t, "rootref") == 4 {
			rr.Ref = rapid.SampledFrom([]string{"main", "br0", "br1"}).Draw(t, "rootrefname")
		}
		out = append(out, rr)
	}
	return out
}
