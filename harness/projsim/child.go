package projsim

import (
	"bytes"
	"encoding/json"
	"fmt"
	"os"
	"os/exec"
	"runtime/debug"
	"sync"
	"sync/atomic"
	"syscall"
	"time"

	"github.com/pgavlin/dawn/internal/verifhook"
)

// CrashExit is the exit status of a child that stopped at its armed crash point.
const CrashExit = 77

type childReq struct {
	Base   string   `json:"base"`
	Req    BuildReq `json:"req"`
	LogOff int      `json:"logoff"`
}

type crashHandler struct {
	mu    sync.Mutex
	req   BuildReq
	n     int
	hits  []string
	flush func()
	jit   atomic.Int64
}

func (c *crashHandler) Yield(string)   {}
func (c *crashHandler) Block(string)   {}
func (c *crashHandler) Unblock(string) {}
func (c *crashHandler) Spawn()         {}
func (c *crashHandler) Begin(string)   {}
func (c *crashHandler) End()           {}
func (c *crashHandler) Crash(site, label string) {
	if c.req.SaveJitter && (site == "save.afterCreateTemp" || site == "save.afterEncode") {
		// widen the window between creating and renaming a record's temporary file, so that record
		// writes of parallel targets overlap
		time.Sleep(time.Duration(50+37*(c.jit.Add(1)%9)) * time.Microsecond)
	}
	c.mu.Lock()
	defer c.mu.Unlock()
	if c.req.CountHits {
		c.hits = append(c.hits, site+" "+label)
	}
	if c.req.CrashSite != "" && site == c.req.CrashSite && (c.req.CrashLabel == "" || c.req.CrashLabel == label) {
		c.n++
		if c.n == c.req.CrashHit {
			os.Exit(CrashExit) // the process dies here: no deferred functions, no flushes
		}
	}
}

// MaybeChild turns the test binary into a build worker when VERIF_CHILD is set. Call it
// first in TestMain.
func MaybeChild() {
	if os.Getenv("VERIF_CHILD") == "" {
		return
	}
	debug.SetMaxStack(64 << 20) // a runaway recursion fails fast (fatal error: stack overflow)
	// ... and so does a runaway allocation: 16 GiB of address space, after which the runtime dies with
	// "out of memory" instead of eating the machine (nothing limits memory in the sandbox)
	syscall.Setrlimit(syscall.RLIMIT_AS, &syscall.Rlimit{Cur: 16 << 30, Max: 16 << 30})
	var req childReq
	if err := json.NewDecoder(os.Stdin).Decode(&req); err != nil {
		fmt.Fprintln(os.Stderr, "child: bad request:", err)
		os.Exit(90)
	}
	h := &crashHandler{req: req.Req}
	verifhook.Set(h)
	env := &Env{Base: req.Base}
	res, _ := RunBuild(env, req.Req, req.LogOff)
	h.mu.Lock()
	res.Hits = h.hits
	h.mu.Unlock()
	out, _ := json.Marshal(res)
	os.Stdout.Write(out)
	os.Exit(0)
}

// ChildBuild performs one build in a fresh child process (new address space, new map
// seeds), optionally with a crash armed.
func (s *Sim) ChildBuild(req BuildReq) BuildResult {
	if req.Args == nil {
		req.Args = s.M.FlagArgs()
	}
	in, _ := json.Marshal(childReq{Base: s.Env.Base, Req: req, LogOff: s.logOff})
	bin := os.Getenv("VERIF_BIN")
	if bin == "" {
		bin = os.Args[0]
	}
	cmd := exec.Command(bin)
	cmd.Env = append(os.Environ(), "VERIF_CHILD=1", "GOTRACEBACK=single")
	cmd.SysProcAttr = &syscall.SysProcAttr{Pdeathsig: syscall.SIGKILL} // a child never outlives the harness process
	cmd.Stdin = bytes.NewReader(in)
	var stdout, stderr bytes.Buffer
	cmd.Stdout, cmd.Stderr = &stdout, &stderr
	done := make(chan error, 1)
	if err := cmd.Start(); err != nil {
		return BuildResult{LoadErr: "child start: " + err.Error(), ExitCode: -1}
	}
	go func() { done <- cmd.Wait() }()
	var res BuildResult
	select {
	case err := <-done:
		if err != nil {
			code := -1
			if ee, ok := err.(*exec.ExitError); ok {
				code = ee.ExitCode()
			}
			res.ExitCode = code
			if code == CrashExit {
				res.Crashed = true
			}
			se := stderr.String()
			if len(se) > 1500 {
				se = se[:1500]
			}
			res.Stderr = se
		} else if err := json.Unmarshal(stdout.Bytes(), &res); err != nil {
			res.LoadErr = "child: bad result: " + err.Error()
			res.ExitCode = -2
		}
	case <-time.After(120 * time.Second):
		cmd.Process.Kill()
		<-done
		res.ExitCode = -3
		res.Stderr = "child did not finish within 120 s"
	}
	// the child appended to the execution log; pick up what it wrote
	if res.ExitCode != 0 {
		res.Log, s.logOff = s.Env.ReadLog(s.logOff)
	} else {
		_, s.logOff = s.Env.ReadLog(s.logOff)
	}
	return res
}
