// Package projsim generates whole dawn projects (multi-package BUILD.dawn DAGs with helper
// modules, closures, defaults, globals, flags, sources, source directories and generated
// files), applies generated histories of edits and builds to them through the real
// dawn.Load / Project.Run (in process or in a fresh child process), and observes events,
// body executions and produced files. Target bodies only use the injected `vf` builtin
// module, and every body writes a digest of everything it depends on, so a stale target is
// visible as a byte difference against a from-scratch build of the same tree.
package projsim

import (
	"fmt"
	"net/url"
	"sort"
	"strconv"
	"strings"
)

// Target is the plain-data description of one function target.
type Target struct {
	ID        int      `json:"id"`
	Pkg       int      `json:"pkg"`
	Deps      []int    `json:"deps,omitempty"`    // IDs of targets it depends on (always lower IDs)
	DepForm   int      `json:"depform,omitempty"` // 0 absolute label strings, 1 relative where possible, 2 target objects where possible
	Sources   []string `json:"sources,omitempty"` // package-relative source file names
	SrcDir    string   `json:"srcdir,omitempty"`  // package-relative source directory
	Gen       bool     `json:"gen,omitempty"`     // declares a generated file g<ID>.gen
	GenSrc    []int    `json:"gensrc,omitempty"`  // IDs of (lower) targets whose generated file is a declared source here
	Always    bool     `json:"always,omitempty"`
	Default   bool     `json:"default,omitempty"`
	Body      int      `json:"body"`   // template 0..9
	K         string   `json:"k"`      // Starlark literal of the constant the body references
	Salt      int      `json:"salt"`   // literal inside the body code
	Helper    int      `json:"helper"` // helper module used by templates 5 and 6
	Emit      []string `json:"emit,omitempty"`
	Prints    []string `json:"prints,omitempty"`    // print() calls made before the emitted chunks
	Exec      int      `json:"exec,omitempty"`      // >0: the body also runs a child process that writes this many lines alternately to its stdout and stderr
	ExecTry   bool     `json:"exectry,omitempty"`   // ... with try_=True
	GenSkip   bool     `json:"genskip,omitempty"`   // the declared generated file is optional: the body never writes it
	GhostDeps []string `json:"ghostdeps,omitempty"` // extra dependency labels that name nothing (missing target, package without a BUILD file)
	KindDeps  []int    `json:"kinddeps,omitempty"`  // members of Deps whose label is spelled with its kind: target://pkg:name
	OrdDeps   []int    `json:"orddeps,omitempty"`   // ordering-only dependencies on targets with lower IDs: declared, not read by the body
	FwdDeps   []int    `json:"fwddeps,omitempty"`   // extra dependency labels on targets with the same or a higher ID (cycles; not read by the body)
	Doc       int      `json:"doc,omitempty"`       // docstring variant (0 = none)
	Removed   bool     `json:"removed,omitempty"`
}

// Helper is a helper module //lib:h<i>.dawn.
type Helper struct {
	K     string `json:"k"`
	Salt  int    `json:"salt"`
	Loads int    `json:"loads"` // index of another (higher) helper it loads, or -1
}

// Model is the whole tree.
type Model struct {
	Pkgs     []string          `json:"pkgs"`
	Helpers  []Helper          `json:"helpers,omitempty"`
	Targets  []Target          `json:"targets"`
	Files    map[string]string `json:"files"`              // root-relative path -> content (sources, directory entries, unrelated files)
	Comments map[string]int    `json:"comments,omitempty"` // BUILD/helper file -> number of comment lines at the top
	Blanks   map[string]int    `json:"blanks,omitempty"`   // BUILD/helper file -> number of blank lines between statements
	FlagArg  string            `json:"flagarg,omitempty"`  // value passed as --<pkg>.mode=<value> ("" = not passed)
	Gated    bool              `json:"gated,omitempty"`    // BUILD files call vf.gate/vf.done so that the harness can impose a package load order
	Ignore   []string          `json:"ignore,omitempty"`
	Seq      int               `json:"seq,omitempty"` // counter for names of added sources
}

// ExecScript is the shell script of a body with Exec = n: n lines, odd ones to stderr.
func ExecScript(n int) string {
	if n > 64 {
		// many lines, written as fast as a shell loop can: the two streams are busy at the same time
		return fmt.Sprintf("i=0; while [ $i -lt %d ]; do echo child line $i; i=$((i+1)); if [ $i -lt %d ]; then echo child line $i >&2; i=$((i+1)); fi; done", n, n)
	}
	var b strings.Builder
	for i := 0; i < n; i++ {
		if i%2 == 1 {
			fmt.Fprintf(&b, "echo child line %d >&2; ", i)
		} else {
			fmt.Fprintf(&b, "echo child line %d; ", i)
		}
	}
	return b.String()
}

// ExecLines are the lines that script writes, in order.
func ExecLines(n int) []string {
	var out []string
	for i := 0; i < n; i++ {
		out = append(out, fmt.Sprintf("child line %d", i))
	}
	return out
}

// AllLabels returns the labels of every live target, of their declared sources and of the default
// wrappers: everything that has a persisted record.
func (m *Model) AllLabels() []string {
	var out []string
	seen := map[string]bool{}
	add := func(l string) {
		if !seen[l] {
			seen[l] = true
			out = append(out, l)
		}
	}
	for _, t := range m.Live() {
		add(m.Label(t))
		for _, l := range m.SourceLabels(t) {
			add(l)
		}
		if m.Targets[t].Default {
			add(m.Pkgs[m.Targets[t].Pkg] + ":default")
		}
	}
	return out
}

// RecordPath returns the path (relative to .dawn/build) of the persisted record of a label in
// the layout of the pinned commit. Checks ask dawn instead (BuildReq.PathsFor); this remains for
// tools that print cases.
func RecordPath(label string) string {
	kind := "target"
	rest := label
	if i := strings.Index(label, "://"); i >= 0 && !strings.HasPrefix(label, "//") {
		kind, rest = label[:i], label[i+1:]
	}
	pkg, name := rest, ""
	if i := strings.LastIndexByte(rest, ':'); i >= 0 {
		pkg, name = rest[:i], rest[i+1:]
	}
	if name == "" {
		name = "BUILD.dawn"
	}
	return kind + "s/" + url.PathEscape(strings.TrimPrefix(pkg, "//")+"/"+name)
}

// SourceLabels returns the labels of the source targets of live target id.
func (m *Model) SourceLabels(id int) []string {
	t := m.Targets[id]
	var out []string
	add := func(rel string) {
		dir, name := "", rel
		if i := strings.LastIndexByte(rel, '/'); i >= 0 {
			dir, name = rel[:i], rel[i+1:]
		}
		out = append(out, "source://"+dir+":"+name)
	}
	for _, s := range t.Sources {
		add(m.Rel(t.Pkg, s))
	}
	if t.SrcDir != "" {
		add(m.Rel(t.Pkg, t.SrcDir))
	}
	for _, g := range t.GenSrc {
		add(m.GenPath(g))
	}
	return out
}

// Clone returns a deep copy.
func (m *Model) Clone() *Model {
	c := *m
	c.Pkgs = append([]string{}, m.Pkgs...)
	c.Helpers = append([]Helper{}, m.Helpers...)
	c.Targets = make([]Target, len(m.Targets))
	for i, t := range m.Targets {
		t.Deps = append([]int{}, t.Deps...)
		t.Sources = append([]string{}, t.Sources...)
		t.GenSrc = append([]int{}, t.GenSrc...)
		t.Emit = append([]string{}, t.Emit...)
		t.Prints = append([]string{}, t.Prints...)
		t.FwdDeps = append([]int{}, t.FwdDeps...)
		t.OrdDeps = append([]int{}, t.OrdDeps...)
		t.KindDeps = append([]int{}, t.KindDeps...)
		t.GhostDeps = append([]string{}, t.GhostDeps...)
		c.Targets[i] = t
	}
	c.Files = map[string]string{}
	for k, v := range m.Files {
		c.Files[k] = v
	}
	c.Comments = map[string]int{}
	for k, v := range m.Comments {
		c.Comments[k] = v
	}
	c.Blanks = map[string]int{}
	for k, v := range m.Blanks {
		c.Blanks[k] = v
	}
	return &c
}

func (m *Model) pkgDir(p int) string { return strings.TrimPrefix(m.Pkgs[p], "//") }

// Rel joins a package-relative name to a root-relative path.
func (m *Model) Rel(p int, name string) string {
	if d := m.pkgDir(p); d != "" {
		return d + "/" + name
	}
	return name
}

// Name returns the target's name.
func (t *Target) Name() string { return "t" + strconv.Itoa(t.ID) }

// Label returns the label of target id.
func (m *Model) Label(id int) string {
	t := m.Targets[id]
	return m.Pkgs[t.Pkg] + ":" + t.Name()
}

// OutPath is the root-relative path of the (undeclared) output file of target id.
func (m *Model) OutPath(id int) string {
	return "out/" + url.PathEscape(m.Label(id)) + ".out"
}

// GenPath is the root-relative path of the generated file of target id.
func (m *Model) GenPath(id int) string {
	t := m.Targets[id]
	return m.Rel(t.Pkg, fmt.Sprintf("g%d.gen", t.ID))
}

// Live returns the IDs of targets that are not removed.
func (m *Model) Live() []int {
	var out []int
	for _, t := range m.Targets {
		if !t.Removed {
			out = append(out, t.ID)
		}
	}
	return out
}

// DirectDeps returns the live function targets id depends on, through explicit deps and
// through generated files it lists as sources.
func (m *Model) DirectDeps(id int) []int {
	seen := map[int]bool{}
	var out []int
	t := m.Targets[id]
	for _, d := range append(append(append([]int{}, t.Deps...), t.GenSrc...), t.OrdDeps...) {
		if !seen[d] && d < len(m.Targets) {
			seen[d] = true
			out = append(out, d)
		}
	}
	sort.Ints(out)
	return out
}

// Closure returns id and everything it transitively depends on (function targets).
func (m *Model) Closure(id int) []int {
	seen := map[int]bool{}
	var walk func(i int)
	walk = func(i int) {
		if seen[i] {
			return
		}
		seen[i] = true
		for _, d := range m.DirectDeps(i) {
			walk(d)
		}
	}
	walk(id)
	var out []int
	for i := range seen {
		out = append(out, i)
	}
	sort.Ints(out)
	return out
}

// MissingDep reports whether the closure of id contains a removed target (the build must then fail).
func (m *Model) MissingDep(id int) bool {
	for _, i := range m.Closure(id) {
		if m.Targets[i].Removed {
			return true
		}
	}
	return false
}

func quote(s string) string { return strconv.Quote(s) }

func (m *Model) buildFile(p int) string { return m.Rel(p, "BUILD.dawn") }

func helperFile(i int) string { return fmt.Sprintf("lib/h%d.dawn", i) }

// usesHelper: templates 5 and 6 use a helper module.
func (t *Target) usesHelper(nh int) bool { return (t.Body == 5 || t.Body == 6) && nh > 0 }

// effectiveBody resolves templates that are not applicable to template 0.
func (m *Model) effectiveBody(t *Target) int {
	switch t.Body {
	case 5, 6:
		if len(m.Helpers) == 0 {
			return 0
		}
	case 8:
		if m.valueTarget(t) < 0 {
			return 0
		}
	}
	return t.Body
}

// valueTarget returns the ID of an earlier live target in the same package (used as a value
// by template 8), or -1.
func (m *Model) valueTarget(t *Target) int {
	for i := t.ID - 1; i >= 0; i-- {
		o := m.Targets[i]
		if o.Pkg == t.Pkg && !o.Removed {
			return o.ID
		}
	}
	return -1
}

// Render produces every file of the tree (root-relative path -> content).
func (m *Model) Render() map[string]string {
	out := map[string]string{}
	for k, v := range m.Files {
		out[k] = v
	}
	cfg := "name = \"gen\"\n"
	if len(m.Ignore) > 0 {
		q := make([]string, len(m.Ignore))
		for i, s := range m.Ignore {
			q[i] = "'" + s + "'"
		}
		cfg += "ignore = [" + strings.Join(q, ", ") + "]\n"
	}
	out["dawn.toml"] = cfg

	sep := func(file string) string {
		return strings.Repeat("\n", 1+m.Blanks[file])
	}
	head := func(file string) string {
		var b strings.Builder
		for i := 0; i < m.Comments[file]; i++ {
			fmt.Fprintf(&b, "# comment %d\n", i)
		}
		return b.String()
	}

	for i, h := range m.Helpers {
		f := helperFile(i)
		var b strings.Builder
		b.WriteString(head(f))
		extra := ""
		if h.Loads >= 0 && h.Loads < len(m.Helpers) && h.Loads != i {
			fmt.Fprintf(&b, "load(\"//lib:h%d.dawn\", \"HC%d\")%s", h.Loads, h.Loads, sep(f))
			extra = fmt.Sprintf(", HC%d", h.Loads)
		}
		fmt.Fprintf(&b, "HK%d = %s%s", i, h.K, sep(f))
		fmt.Fprintf(&b, "def hf%d(x):\n    return [x, HK%d, %d%s]%s", i, i, h.Salt, extra, sep(f))
		fmt.Fprintf(&b, "HC%d = [HK%d, \"c%d\"%s]\n", i, i, i, extra)
		out[f] = b.String()
	}

	for p := range m.Pkgs {
		f := m.buildFile(p)
		var b strings.Builder
		b.WriteString(head(f))
		if m.Gated {
			fmt.Fprintf(&b, "vf.gate(%s)\n", quote(m.Pkgs[p]))
		}
		// loads
		used := map[int]bool{}
		flag := false
		any := false
		for i := range m.Targets {
			t := &m.Targets[i]
			if t.Pkg != p || t.Removed {
				continue
			}
			any = true
			switch m.effectiveBody(t) {
			case 5, 6:
				used[t.Helper%len(m.Helpers)] = true
			case 7:
				flag = true
			}
		}
		if !any && p != 0 {
			// a package without targets still has a BUILD file (so that it exists as a package)
			b.WriteString("UNUSED = 1\n")
			if m.Gated {
				fmt.Fprintf(&b, "vf.done(%s)\n", quote(m.Pkgs[p]))
			}
			out[f] = b.String()
			continue
		}
		var hs []int
		for h := range used {
			hs = append(hs, h)
		}
		sort.Ints(hs)
		for _, h := range hs {
			fmt.Fprintf(&b, "load(\"//lib:h%d.dawn\", \"hf%d\", \"HC%d\")%s", h, h, h, sep(f))
		}
		if flag {
			fmt.Fprintf(&b, "FLAGV = parse_flag(\"mode\", default=\"dflt\")%s", sep(f))
		}
		for i := range m.Targets {
			t := &m.Targets[i]
			if t.Pkg != p || t.Removed {
				continue
			}
			b.WriteString(m.renderTarget(t))
			b.WriteString(sep(f))
		}
		if m.Gated {
			fmt.Fprintf(&b, "vf.done(%s)\n", quote(m.Pkgs[p]))
		}
		out[f] = b.String()
	}
	return out
}

func (m *Model) renderTarget(t *Target) string {
	var b strings.Builder
	id := t.ID
	lbl := m.Label(id)
	body := m.effectiveBody(t)
	fmt.Fprintf(&b, "K%d = %s\n", id, t.K)

	// expression of the referenced inputs
	ins := fmt.Sprintf("[K%d]", id)
	switch body {
	case 1, 2:
		ins = "[k]"
	case 3:
		ins = "sub(1)"
	case 4:
		fmt.Fprintf(&b, "L%d = lambda: K%d\n", id, id)
		ins = fmt.Sprintf("[L%d()]", id)
	case 5:
		ins = fmt.Sprintf("[hf%d(K%d)]", t.Helper%len(m.Helpers), id)
	case 6:
		ins = fmt.Sprintf("[HC%d, K%d]", t.Helper%len(m.Helpers), id)
	case 7:
		ins = fmt.Sprintf("[FLAGV, K%d]", id)
	case 8:
		ins = fmt.Sprintf("[T%d, K%d]", m.valueTarget(t), id)
	case 11:
		// a helper and a constant defined below the target (module globals are bound late)
		ins = fmt.Sprintf("[late%d(1)]", id)
	case 10:
		// a helper that calls itself (its fingerprint holds a placeholder for the recursive reference)
		fmt.Fprintf(&b, "def rec%d(n):\n    if n <= 0:\n        return K%d\n    return rec%d(n - 1)\n", id, id, id)
		ins = fmt.Sprintf("[rec%d(2)]", id)
	case 9:
		// two functions with the same name ("lambda"); the constant is referenced by the second
		fmt.Fprintf(&b, "L%d = lambda: %d\nM%d = lambda: K%d\n", id, id, id, id)
		ins = fmt.Sprintf("[L%d(), M%d()]", id, id)
	}

	indent := "    "
	fname := fmt.Sprintf("f%d", id)
	switch body {
	case 1:
		fmt.Fprintf(&b, "def %s(self, k=K%d):\n", fname, id)
	case 2:
		fmt.Fprintf(&b, "def make%d(k):\n    def inner%d():\n", id, id)
		indent = "        "
	default:
		fmt.Fprintf(&b, "def %s():\n", fname)
	}
	if t.Doc > 0 {
		fmt.Fprintf(&b, "%s\"\"\"doc %d of %s\"\"\"\n", indent, t.Doc, t.Name())
	}
	if body == 3 {
		fmt.Fprintf(&b, "%sdef sub(x):\n%s    return [x, K%d]\n", indent, indent, id)
	}
	fmt.Fprintf(&b, "%svf.log(%s, \"start\")\n", indent, quote(lbl))
	fmt.Fprintf(&b, "%sins = %s\n", indent, ins)
	// sources
	var srcs []string
	for _, s := range t.Sources {
		srcs = append(srcs, fmt.Sprintf("vf.read(%s)", quote(m.Rel(t.Pkg, s))))
	}
	if t.SrcDir != "" {
		srcs = append(srcs, fmt.Sprintf("vf.listdir(%s)", quote(m.Rel(t.Pkg, t.SrcDir))))
	}
	for _, g := range t.GenSrc {
		srcs = append(srcs, fmt.Sprintf("vf.read(%s)", quote(m.GenPath(g))))
	}
	fmt.Fprintf(&b, "%ssrcs = [%s]\n", indent, strings.Join(srcs, ", "))
	var deps []string
	for _, d := range t.Deps {
		deps = append(deps, fmt.Sprintf("vf.read(%s)", quote(m.OutPath(d))))
	}
	fmt.Fprintf(&b, "%sdeps = [%s]\n", indent, strings.Join(deps, ", "))
	for _, p := range t.Prints {
		fmt.Fprintf(&b, "%sprint(%s)\n", indent, quote(p))
	}
	if len(t.Emit) > 0 {
		q := make([]string, len(t.Emit))
		for i, c := range t.Emit {
			q[i] = quote(c)
		}
		fmt.Fprintf(&b, "%svf.emit(%s)\n", indent, strings.Join(q, ", "))
	}
	if t.Exec > 0 {
		try := ""
		if t.ExecTry {
			try = ", try_=True"
		}
		fmt.Fprintf(&b, "%sos.exec([\"sh\", \"-c\", %s]%s)\n", indent, quote(ExecScript(t.Exec)), try)
	}
	fmt.Fprintf(&b, "%svf.point(%s, \"mid\")\n", indent, quote(lbl))
	fmt.Fprintf(&b, "%svf.write(%s, vf.digest(%s, %d, ins, srcs, deps))\n", indent, quote(m.OutPath(id)), quote(lbl), t.Salt)
	fmt.Fprintf(&b, "%svf.wipe_if(%s)\n", indent, quote(t.Name()))
	fmt.Fprintf(&b, "%svf.fail_if(%s)\n", indent, quote(t.Name()))
	if t.Gen && !t.GenSkip {
		fmt.Fprintf(&b, "%svf.write(%s, vf.digest(\"gen\", %s, %d, ins, srcs, deps))\n", indent, quote(m.GenPath(id)), quote(lbl), t.Salt)
	}
	fmt.Fprintf(&b, "%svf.point(%s, \"late\")\n", indent, quote(lbl))
	fmt.Fprintf(&b, "%svf.log(%s, \"end\")\n", indent, quote(lbl))
	fn := fname
	if body == 2 {
		fmt.Fprintf(&b, "    return inner%d\n", id)
		fn = fmt.Sprintf("make%d(K%d)", id, id)
	}

	// target declaration
	var args []string
	args = append(args, fmt.Sprintf("name=%s", quote(t.Name())))
	if len(t.Deps)+len(t.FwdDeps)+len(t.OrdDeps)+len(t.GhostDeps) > 0 {
		var ds []string
		for _, g := range t.GhostDeps {
			ds = append(ds, quote(g))
		}
		for _, d := range append(append([]int{}, t.FwdDeps...), t.OrdDeps...) {
			if d < len(m.Targets) {
				ds = append(ds, quote(m.Label(d)))
			}
		}
		for _, d := range t.Deps {
			dt := m.Targets[d]
			kinded := false
			for _, k := range t.KindDeps {
				kinded = kinded || k == d
			}
			switch {
			case kinded:
				ds = append(ds, quote("target:"+m.Label(d)))
			case t.DepForm == 2 && dt.Pkg == t.Pkg && !dt.Removed && d < id:
				ds = append(ds, fmt.Sprintf("T%d", d))
			case t.DepForm == 1 && dt.Pkg == t.Pkg:
				ds = append(ds, quote(":"+dt.Name()))
			default:
				ds = append(ds, quote(m.Label(d)))
			}
		}
		args = append(args, "deps=["+strings.Join(ds, ", ")+"]")
	}
	var ss []string
	for _, s := range t.Sources {
		ss = append(ss, quote(s))
	}
	if t.SrcDir != "" {
		ss = append(ss, quote(t.SrcDir))
	}
	for _, g := range t.GenSrc {
		ss = append(ss, quote("/"+m.GenPath(g)))
	}
	if len(ss) > 0 {
		args = append(args, "sources=["+strings.Join(ss, ", ")+"]")
	}
	if t.Gen {
		args = append(args, fmt.Sprintf("generates=[%s]", quote(fmt.Sprintf("g%d.gen", id))))
	}
	args = append(args, "function="+fn)
	if t.Default {
		args = append(args, "default=True")
	}
	if t.Always {
		args = append(args, "always=True")
	}
	fmt.Fprintf(&b, "T%d = target(%s)\n", id, strings.Join(args, ", "))
	if body == 11 {
		fmt.Fprintf(&b, "def late%d(x):\n    return [x, KL%d]\nKL%d = %s\n", id, id, id, t.K)
	}
	return b.String()
}
