package projsim

import (
	"fmt"
	"math/big"
	"os"
	"path/filepath"
	"sort"
	"strings"
	"time"

	"pgregory.net/rapid"
)

// Op is one step of a history: an edit of the tree, a build, a garbage collection, ...
type Op struct {
	Kind string `json:"kind"`
	T    int    `json:"t,omitempty"` // target selector (modulo live targets)
	I    int    `json:"i,omitempty"` // secondary selector
	S    string `json:"s,omitempty"` // content / literal

	// builds
	Always bool  `json:"always,omitempty"`
	Dry    bool  `json:"dry,omitempty"`
	Child  bool  `json:"child,omitempty"`
	Watch  bool  `json:"watch,omitempty"` // build on the history's long-lived Project: Reload + Run, as watch mode does
	Fail   []int `json:"fail,omitempty"`  // target selectors whose bodies fail during this build
	Index  bool  `json:"index,omitempty"`
	// Crash names a crash point: the build runs in a child process that dies at the CrashHit-th
	// time (from 1) any target reaches it.
	// Owner: T selects among the live targets that declare sources (as the src-* edits do), so that
	// a build can be aimed at the target an edit touched.
	Owner    bool   `json:"owner,omitempty"`
	Crash    string `json:"crash,omitempty"`
	CrashHit int    `json:"crashhit,omitempty"`
}

// CrashSites lists the crash points an interrupted build of a history may die at.
var CrashSites = []string{"body.late", "save.afterRename", "body.mid", "eval.afterBody", "save.beforeRename", "eval.beforeBody",
	"save.afterEncode", "eval.afterSave", "save.afterCreateTemp", "index.afterCreate", "index.afterEncode", "load.afterIndex"}

// GenCrash turns a build op into an interrupted one.
func GenCrash(t *rapid.T, op Op) Op {
	op.Crash = rapid.SampledFrom(CrashSites).Draw(t, "crashsite")
	op.CrashHit = rapid.IntRange(1, 6).Draw(t, "crashhit")
	op.Dry, op.Fail, op.Child = false, nil, true
	return op
}

// IsBuild reports whether the op is a build.
func (o Op) IsBuild() bool { return o.Kind == "build" }

// EditInfo describes what an edit did.
type EditInfo struct {
	Class    string // edit class for the evidence
	Semantic bool   // changes an input of Affected (and its dependents)
	Affected []int  // target IDs whose direct inputs changed
	Applied  bool
}

func pick(ids []int, sel int) int {
	if len(ids) == 0 {
		return -1
	}
	if sel < 0 {
		sel = -sel
	}
	return ids[sel%len(ids)]
}

// BuildTarget resolves the target selector of a build op (-1: nothing to build).
func (m *Model) BuildTarget(op Op) int {
	if op.Owner {
		if id := pick(m.liveWhere(func(t *Target) bool { return len(t.Sources) > 0 }), op.T); id >= 0 {
			return id
		}
	}
	return pick(m.Live(), op.T)
}

func (m *Model) liveWhere(pred func(t *Target) bool) []int {
	var out []int
	for i := range m.Targets {
		if !m.Targets[i].Removed && pred(&m.Targets[i]) {
			out = append(out, i)
		}
	}
	return out
}

func (m *Model) dirFiles(t *Target) []string {
	prefix := m.Rel(t.Pkg, t.SrcDir) + "/"
	var out []string
	for f := range m.Files {
		if strings.HasPrefix(f, prefix) {
			out = append(out, f)
		}
	}
	sort.Strings(out)
	return out
}

// Dependents returns the live targets that (transitively) depend on id, id included.
func (m *Model) Dependents(id int) []int {
	var out []int
	for _, t := range m.Live() {
		for _, c := range m.Closure(t) {
			if c == id {
				out = append(out, t)
				break
			}
		}
	}
	return out
}

// ApplyEdit applies an edit op to the sim (model and disk).
func (s *Sim) ApplyEdit(op Op) EditInfo {
	m := s.M
	info := EditInfo{Class: op.Kind}
	all := m.Live()
	backdate := ""
	switch op.Kind {
	case "src-new", "src-same", "src-recreate", "src-revert", "src-rm", "src-unreadable", "src-backdated":
		ids := m.liveWhere(func(t *Target) bool { return len(t.Sources) > 0 })
		id := pick(ids, op.T)
		if id < 0 {
			return info
		}
		t := &m.Targets[id]
		f := m.Rel(t.Pkg, t.Sources[op.I%len(t.Sources)])
		switch op.Kind {
		case "src-backdated":
			// new contents that arrive with an old modification time (cp -p, tar x, rsync -t, mv of an older file)
			if m.Files[f] == op.S || m.Files[f] == SymlinkLoop {
				return info
			}
			m.Files[f] = op.S
			info.Semantic = true
			backdate = f
		case "src-new":
			if m.Files[f] == op.S {
				info.Class = "src-same"
				s.Touch(f, false)
			} else {
				m.Files[f] = op.S
				info.Semantic = true
			}
		case "src-same":
			s.Touch(f, false)
		case "src-recreate":
			s.Touch(f, true)
		case "src-unreadable":
			// the source becomes unreadable (a self-referential symbolic link): checking whether it is
			// up to date fails with an error that is not "does not exist"
			if m.Files[f] == SymlinkLoop {
				return info
			}
			m.Files[f] = SymlinkLoop
			info.Semantic = true
		case "src-rm":
			// the source stays declared but its file is gone
			if _, ok := m.Files[f]; !ok {
				return info
			}
			delete(m.Files, f)
			info.Semantic = true
		case "src-revert":
			orig := "content of " + f + "\n"
			if m.Files[f] != orig {
				m.Files[f] = orig
				info.Semantic = true
			}
		}
		// every target listing this file as a source is affected
		for _, o := range all {
			ot := &m.Targets[o]
			for _, sname := range ot.Sources {
				if m.Rel(ot.Pkg, sname) == f {
					info.Affected = append(info.Affected, o)
				}
			}
		}
		info.Applied = true
	case "dir-add", "dir-del", "dir-rename", "dir-edit", "dir-recreate":
		ids := m.liveWhere(func(t *Target) bool { return t.SrcDir != "" })
		id := pick(ids, op.T)
		if id < 0 {
			return info
		}
		t := &m.Targets[id]
		files := m.dirFiles(t)
		dir := m.Rel(t.Pkg, t.SrcDir)
		switch op.Kind {
		case "dir-add":
			name := fmt.Sprintf("%s/n%d.txt", dir, op.I%7)
			if _, ok := m.Files[name]; ok {
				return info
			}
			m.Files[name] = op.S
			info.Semantic = true
		case "dir-del":
			if len(files) <= 1 {
				return info
			}
			delete(m.Files, files[op.I%len(files)])
			info.Semantic = true
		case "dir-rename":
			if len(files) == 0 {
				return info
			}
			old := files[op.I%len(files)]
			nw := fmt.Sprintf("%s/r%d.txt", dir, op.I%5)
			if _, ok := m.Files[nw]; ok || nw == old {
				return info
			}
			m.Files[nw] = m.Files[old]
			delete(m.Files, old)
			info.Semantic = true
		case "dir-edit":
			if len(files) == 0 {
				return info
			}
			f := files[op.I%len(files)]
			if m.Files[f] == op.S {
				return info
			}
			m.Files[f] = op.S
			info.Semantic = true
		case "dir-recreate":
			if len(files) == 0 {
				return info
			}
			s.Touch(files[op.I%len(files)], true)
		}
		for _, o := range all {
			ot := &m.Targets[o]
			if ot.SrcDir != "" && m.Rel(ot.Pkg, ot.SrcDir) == dir {
				info.Affected = append(info.Affected, o)
			}
		}
		info.Applied = true
	case "const":
		id := pick(all, op.T)
		if id < 0 || m.Targets[id].K == op.S {
			return info
		}
		m.Targets[id].K = op.S
		info.Semantic, info.Affected, info.Applied = true, []int{id}, true
	case "const-alias":
		// an integer constant moved by a power of two: the values that fixed-width encodings confuse
		id := pick(all, op.T)
		if id < 0 {
			return info
		}
		if v, ok := new(big.Int).SetString(m.Targets[id].K, 10); ok {
			d := new(big.Int).Lsh(big.NewInt(1), []uint{64, 32, 16, 8, 63, 64}[op.I%6])
			if v.Sign() > 0 {
				v.Sub(v, d)
			} else {
				v.Add(v, d)
			}
			m.Targets[id].K = v.String()
		} else {
			// not an integer yet: make it one that sits at a width boundary
			m.Targets[id].K = []string{"9223372036854775808", "18446744073709551615", "-9223372036854775809", "4294967295", "12345678901234567890", "-1"}[op.I%6]
		}
		info.Semantic, info.Affected, info.Applied = true, []int{id}, true
	case "body":
		id := pick(all, op.T)
		if id < 0 {
			return info
		}
		m.Targets[id].Salt++
		info.Semantic, info.Affected, info.Applied = true, []int{id}, true
	case "helper-const", "helper-code":
		if len(m.Helpers) == 0 {
			return info
		}
		h := op.I % len(m.Helpers)
		if op.Kind == "helper-const" {
			if m.Helpers[h].K == op.S {
				return info
			}
			m.Helpers[h].K = op.S
		} else {
			m.Helpers[h].Salt++
		}
		// targets using helper h, or a helper that loads h
		for _, o := range all {
			ot := &m.Targets[o]
			if b := m.effectiveBody(ot); b == 5 || b == 6 {
				uh := ot.Helper % len(m.Helpers)
				if uh == h || m.Helpers[uh].Loads == h {
					info.Affected = append(info.Affected, o)
				}
			}
		}
		info.Semantic, info.Applied = len(info.Affected) > 0, true
	case "comment", "blank":
		files := m.codeFiles()
		f := files[op.I%len(files)]
		if op.Kind == "comment" {
			m.Comments[f]++
		} else {
			m.Blanks[f]++
		}
		info.Applied = true
	case "doc":
		id := pick(all, op.T)
		if id < 0 {
			return info
		}
		m.Targets[id].Doc++
		info.Applied = true
	case "dep-add":
		id := pick(all, op.T)
		if id < 0 || id == 0 {
			return info
		}
		var cands []int
		for _, o := range all {
			if o < id {
				has := false
				for _, d := range m.Targets[id].Deps {
					if d == o {
						has = true
					}
				}
				if !has {
					cands = append(cands, o)
				}
			}
		}
		d := pick(cands, op.I)
		if d < 0 {
			return info
		}
		m.Targets[id].Deps = append(m.Targets[id].Deps, d)
		info.Semantic, info.Affected, info.Applied = true, []int{id}, true
	case "dep-del":
		ids := m.liveWhere(func(t *Target) bool { return len(t.Deps) > 0 })
		id := pick(ids, op.T)
		if id < 0 {
			return info
		}
		t := &m.Targets[id]
		k := op.I % len(t.Deps)
		t.Deps = append(t.Deps[:k:k], t.Deps[k+1:]...)
		info.Semantic, info.Affected, info.Applied = true, []int{id}, true
	case "ord-add", "ord-del":
		// an ordering-only dependency: declared in deps=, not read by the body (so the function's
		// code does not change with it)
		if op.Kind == "ord-del" {
			ids := m.liveWhere(func(t *Target) bool { return len(t.OrdDeps) > 0 })
			id := pick(ids, op.T)
			if id < 0 {
				return info
			}
			t := &m.Targets[id]
			k := op.I % len(t.OrdDeps)
			t.OrdDeps = append(t.OrdDeps[:k:k], t.OrdDeps[k+1:]...)
			info.Semantic, info.Affected, info.Applied = true, []int{id}, true
			break
		}
		id := pick(all, op.T)
		if id <= 0 {
			return info
		}
		var cands []int
		for _, o := range all {
			if o < id {
				has := false
				for _, d := range m.DirectDeps(id) {
					if d == o {
						has = true
					}
				}
				if !has {
					cands = append(cands, o)
				}
			}
		}
		d := pick(cands, op.I)
		if d < 0 {
			return info
		}
		m.Targets[id].OrdDeps = append(m.Targets[id].OrdDeps, d)
		info.Semantic, info.Affected, info.Applied = true, []int{id}, true
	case "src-add":
		id := pick(all, op.T)
		if id < 0 {
			return info
		}
		t := &m.Targets[id]
		m.Seq++
		name := fmt.Sprintf("a%d_%d.txt", id, m.Seq) // never re-creates an earlier name
		t.Sources = append(t.Sources, name)
		m.Files[m.Rel(t.Pkg, name)] = op.S
		info.Semantic, info.Affected, info.Applied = true, []int{id}, true
	case "src-del":
		ids := m.liveWhere(func(t *Target) bool { return len(t.Sources) > 0 })
		id := pick(ids, op.T)
		if id < 0 {
			return info
		}
		t := &m.Targets[id]
		k := op.I % len(t.Sources)
		t.Sources = append(t.Sources[:k:k], t.Sources[k+1:]...)
		info.Semantic, info.Affected, info.Applied = true, []int{id}, true
	case "gen-del":
		ids := m.liveWhere(func(t *Target) bool { return t.Gen })
		id := pick(ids, op.T)
		if id < 0 {
			return info
		}
		p := filepath.Join(s.Env.Root(), filepath.FromSlash(m.GenPath(id)))
		if _, err := os.Stat(p); err != nil {
			return info
		}
		os.Remove(p)
		info.Semantic, info.Affected, info.Applied = true, []int{id}, true
	case "flag":
		if m.FlagArg == op.S {
			return info
		}
		m.FlagArg = op.S
		for _, o := range all {
			if m.effectiveBody(&m.Targets[o]) == 7 {
				info.Affected = append(info.Affected, o)
			}
		}
		info.Semantic, info.Applied = len(info.Affected) > 0, true
	case "target-add":
		p := op.I % len(m.Pkgs)
		id := len(m.Targets)
		nt := Target{ID: id, Pkg: p, Body: 0, K: fmt.Sprint(id * 3), Helper: 0}
		if len(all) > 0 && op.T%2 == 0 {
			nt.Deps = []int{pick(all, op.T)}
		}
		nt.Sources = []string{fmt.Sprintf("s%d.txt", id)}
		m.Files[m.Rel(p, nt.Sources[0])] = "content of added " + fmt.Sprint(id) + "\n"
		m.Targets = append(m.Targets, nt)
		info.Applied = true
	case "target-del":
		// remove a live target nothing depends on
		var cands []int
		for _, o := range all {
			if len(m.Dependents(o)) == 1 && len(all) > 1 {
				cands = append(cands, o)
			}
		}
		id := pick(cands, op.T)
		if id < 0 {
			return info
		}
		m.Targets[id].Removed = true
		info.Applied = true
		info.Affected = []int{id}
	case "unrelated-src":
		m.Files["junk.txt"] = op.S
		info.Applied = true
	default:
		return info
	}
	s.Sync()
	if backdate != "" {
		old := time.Date(2001, 2, 3, 4, 5, 6, 0, time.UTC)
		os.Chtimes(filepath.Join(s.Env.Root(), filepath.FromSlash(backdate)), old, old)
	}
	return info
}

func (m *Model) codeFiles() []string {
	var out []string
	for p := range m.Pkgs {
		out = append(out, m.buildFile(p))
	}
	for h := range m.Helpers {
		out = append(out, helperFile(h))
	}
	return out
}

// ---- generators ------------------------------------------------------------------------------

var constPool = []string{
	"7", "300", "256", "65535", "65536", "65580", "255", "1000", "4096", "-5", "70000", "12345678901234567890", "1.5", "9223372036854775808", "18446744073709551615", "-9223372036854775808", "4294967296", "-2147483648", "9223372036854775807",
	"\"abc\"", "\"abd\"", "b\"xy\"", "(1, \"a\")", "(1, \"b\")", "[1, 2, 300]", "[1, 2, 301]", "[1, 2, 65836]",
	"{\"a\": 1, \"b\": [2, 300]}", "{\"a\": 1, \"b\": [2, 65836]}", "set([1, 2])", "set([1, 3])", "True", "None", "513", "2",
	"[[[[[[[[[[[[1]]]]]]]]]]]]", "[[[[[[[[[[[[2]]]]]]]]]]]]", "{\"d\": ((((((((((((\"x\",),),),),),),),),),),),)}", "{\"d\": ((((((((((((\"y\",),),),),),),),),),),),)}",
}

// GenConst draws a constant literal.
func GenConst(t *rapid.T) string {
	if rapid.IntRange(0, 40).Draw(t, "bigconst") == 33 {
		return rapid.SampledFrom([]string{"list(range(1001))", "list(range(1002))", "{str(i): i for i in range(1001)}"}).Draw(t, "bigk")
	}
	if rapid.IntRange(0, 3).Draw(t, "u16") == 2 {
		return fmt.Sprint(rapid.IntRange(256, 65535).Draw(t, "u16v"))
	}
	return rapid.SampledFrom(constPool).Draw(t, "const")
}

var pkgPool = []string{"//", "//p1", "//p1/q", "//p2"}

var emitPool = [][]string{
	{"one line\n"}, {"par", "tial"}, {"a\nb", "\nc"}, {"x\n", "\n", "y"}, {"", "z\n"}, {"no newline"}, {"\n\n"}, {"l1\nl2\nl3\n"}, {"a", "b", "c\n", "d"},
}

// fancyName joins two halves of a file name with characters that file systems accept and that URL escaping,
// label syntax and shells treat specially.
func fancyName(t *rapid.T, a, b string) string {
	if rapid.IntRange(0, 4).Draw(t, "dotdir") == 4 {
		// inside a directory whose name starts with a dot (.github/ci.yml): record names then start with a dot too
		a = rapid.SampledFrom([]string{".hid/", ".ci/", ".a/.b/"}).Draw(t, "dotdirname") + a
	}
	return a + rapid.SampledFrom([]string{"+", " ", "%2B", "é", "&=", ",", "~", "+", "%", "$", "++", " + "}).Draw(t, "namesep") + b
}

// GenModel draws a project.
func GenModel(t *rapid.T, maxTargets int, emit bool) *Model {
	m := &Model{Files: map[string]string{}, Comments: map[string]int{}, Blanks: map[string]int{}}
	np := rapid.SampledFrom([]int{2, 1, 3, 4, 2, 3}).Draw(t, "npkgs")
	m.Pkgs = append(m.Pkgs, pkgPool[:np]...)
	nh := rapid.SampledFrom([]int{1, 0, 2, 1}).Draw(t, "nhelpers")
	for h := 0; h < nh; h++ {
		hp := Helper{K: GenConst(t), Loads: -1}
		if h == 0 && nh == 2 && rapid.Bool().Draw(t, "hload") {
			hp.Loads = 1
		}
		m.Helpers = append(m.Helpers, hp)
	}
	nt := rapid.IntRange(2, maxTargets).Draw(t, "ntargets")
	fancy := rapid.IntRange(0, 3).Draw(t, "fancynames") == 3 // file and directory names with special characters
	hasDefault := map[int]bool{}
	for id := 0; id < nt; id++ {
		tg := Target{ID: id, Pkg: rapid.IntRange(0, np-1).Draw(t, "pkg")}
		if id > 0 {
			k := rapid.SampledFrom([]int{1, 2, 0, 1, 3}).Draw(t, "ndeps")
			seen := map[int]bool{}
			for j := 0; j < k; j++ {
				d := rapid.IntRange(0, id-1).Draw(t, "dep")
				if !seen[d] {
					seen[d] = true
					tg.Deps = append(tg.Deps, d)
				}
			}
		}
		if id > 1 && rapid.IntRange(0, 4).Draw(t, "orddep") == 4 {
			// an ordering-only dependency
			d := rapid.IntRange(0, id-1).Draw(t, "ordd")
			dup := false
			for _, e := range tg.Deps {
				if e == d {
					dup = true
				}
			}
			if !dup {
				tg.OrdDeps = []int{d}
			}
		}
		tg.DepForm = rapid.IntRange(0, 2).Draw(t, "depform")
		ns := rapid.SampledFrom([]int{1, 0, 2, 1}).Draw(t, "nsrc")
		for j := 0; j < ns; j++ {
			name := fmt.Sprintf("s%d_%d.txt", id, j)
			if fancy {
				name = fancyName(t, fmt.Sprintf("s%d", id), fmt.Sprintf("%d.txt", j))
			}
			if rapid.IntRange(0, 7).Draw(t, "srcnamedliketarget") == 7 {
				// a source file that has the name of a target (a script "build" next to the target "build")
				name = fmt.Sprintf("t%d", rapid.IntRange(0, nt-1).Draw(t, "liketarget"))
			}
			// sometimes share a source file with an earlier target of the same package
			if id > 0 && rapid.IntRange(0, 5).Draw(t, "share") == 4 {
				for o := id - 1; o >= 0; o-- {
					if m.Targets[o].Pkg == tg.Pkg && len(m.Targets[o].Sources) > 0 {
						name = m.Targets[o].Sources[0]
						break
					}
				}
			}
			dup := false
			for _, e := range tg.Sources {
				if e == name {
					dup = true
				}
			}
			if dup {
				continue
			}
			tg.Sources = append(tg.Sources, name)
			f := m.Rel(tg.Pkg, name)
			if _, ok := m.Files[f]; !ok {
				m.Files[f] = "content of " + f + "\n"
			}
		}
		if rapid.IntRange(0, 3).Draw(t, "srcdir") == 3 {
			tg.SrcDir = fmt.Sprintf("d%d", id)
			if fancy {
				tg.SrcDir = fancyName(t, "d", fmt.Sprint(id))
			}
			nf := rapid.IntRange(1, 3).Draw(t, "ndirfiles")
			for j := 0; j < nf; j++ {
				m.Files[m.Rel(tg.Pkg, fmt.Sprintf("%s/f%d.txt", tg.SrcDir, j))] = fmt.Sprintf("dir file %d of t%d\n", j, id)
			}
		}
		tg.Gen = rapid.IntRange(0, 3).Draw(t, "gen") == 3
		if id > 0 && rapid.IntRange(0, 2).Draw(t, "usegen") == 2 {
			for o := id - 1; o >= 0; o-- {
				if m.Targets[o].Gen {
					tg.GenSrc = []int{o}
					break
				}
			}
		}
		tg.Always = rapid.IntRange(0, 11).Draw(t, "always") == 9
		if !hasDefault[tg.Pkg] && rapid.IntRange(0, 3).Draw(t, "default") == 3 {
			tg.Default = true
			hasDefault[tg.Pkg] = true
		}
		tg.Body = rapid.SampledFrom([]int{0, 1, 2, 3, 4, 5, 6, 7, 8, 9, 5, 9, 10, 11}).Draw(t, "body")
		if tg.Body == 7 && tg.Pkg != 0 {
			tg.Body = 1 // the flag template lives in the root package only
		}
		tg.K = GenConst(t)
		tg.Helper = rapid.IntRange(0, 1).Draw(t, "helper")
		if emit && rapid.IntRange(0, 2).Draw(t, "emit") != 2 {
			tg.Emit = rapid.SampledFrom(emitPool).Draw(t, "chunks")
		}
		m.Targets = append(m.Targets, tg)
	}
	m.Files["junk.txt"] = "junk\n"
	return m
}

var longPrefix = strings.Repeat("shared prefix 0123456789 ", 8)

var contentPool = []string{"one\n", "two\n", longPrefix + "A\n", "three", longPrefix + "B\n", "", "one\n", longPrefix + "A\n", "one\ntwo\n", longPrefix + "C"}

var semanticEdits = []string{"src-rm", "src-new", "const", "body", "helper-const", "helper-code", "dir-add", "dir-del", "dir-rename", "dir-edit", "dep-add", "dep-del", "ord-add", "ord-del", "ord-add", "src-add", "src-del", "gen-del", "flag", "src-revert", "const", "src-new", "const-alias", "src-backdated"}
var noopEdits = []string{"src-same", "src-recreate", "comment", "blank", "doc", "unrelated-src", "dir-recreate"}

// GenEdit draws an edit op of the given class list.
func GenEdit(t *rapid.T, kinds []string) Op {
	op := Op{Kind: rapid.SampledFrom(kinds).Draw(t, "editkind"), T: rapid.IntRange(0, 11).Draw(t, "et"), I: rapid.IntRange(0, 11).Draw(t, "ei")}
	switch op.Kind {
	case "const", "helper-const":
		op.S = GenConst(t)
	case "flag":
		op.S = rapid.SampledFrom([]string{"x", "y", "", "dflt"}).Draw(t, "flagv")
	default:
		op.S = rapid.SampledFrom(contentPool).Draw(t, "content")
	}
	return op
}

// SemanticEdits / NoopEdits expose the class lists.
func SemanticEdits() []string { return semanticEdits }
func NoopEdits() []string     { return noopEdits }

// GenBuild draws a build op.
func GenBuild(t *rapid.T, allowFail, allowDry, allowChild bool) Op {
	op := Op{Kind: "build", T: rapid.IntRange(0, 11).Draw(t, "bt")}
	op.Always = rapid.IntRange(0, 9).Draw(t, "balways") == 7
	if allowDry {
		op.Dry = rapid.IntRange(0, 5).Draw(t, "bdry") == 4
	}
	if allowChild {
		op.Child = rapid.IntRange(0, 3).Draw(t, "bchild") == 3
	}
	if allowFail && rapid.IntRange(0, 4).Draw(t, "bfail") == 3 {
		op.Fail = []int{rapid.IntRange(0, 11).Draw(t, "failt")}
	}
	return op
}
