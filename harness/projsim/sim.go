package projsim

import (
	"bytes"
	"crypto/sha256"
	"encoding/base64"
	"encoding/hex"
	"encoding/json"
	"fmt"
	"github.com/pgavlin/dawn/pickle"
	"io"
	"io/fs"
	"os"
	"path/filepath"
	"runtime"
	"sort"
	"strings"
	"sync"
	"time"

	dawn "github.com/pgavlin/dawn"
	"github.com/pgavlin/dawn/diff"
	"github.com/pgavlin/dawn/label"
	"github.com/pgavlin/dawn/verif/diffcheck"
	"go.starlark.net/starlark"
)

// Event is one recorded build/load event.
type Event struct {
	Seq     int    `json:"seq"`
	Kind    string `json:"kind"` // UpToDate Evaluating Succeeded Failed Print RunDone ModuleLoading LoadDone
	Label   string `json:"label,omitempty"`
	Text    string `json:"text,omitempty"` // reason / line / error text
	Changed bool   `json:"changed,omitempty"`
	Err     bool   `json:"err,omitempty"`
	// for Evaluating: the environment keys that differ according to the event's own diff
	DiffKeys []string `json:"diffkeys,omitempty"`
	SameKeys []string `json:"samekeys,omitempty"` // parts of the environments that do not differ
	HasDiff  bool     `json:"hasdiff,omitempty"`
	// Unwalkable: the diff's values are too large to visit path by path; the harness did not inspect them
	Unwalkable bool `json:"unwalkable,omitempty"`
	// Problem is what the reconstruction oracle says about the event's diff ("" = faithful)
	Problem string `json:"problem,omitempty"`
}

// Recorder implements dawn.Events.
type Recorder struct {
	mu     sync.Mutex
	Events []Event
}

func (r *Recorder) add(e Event) {
	r.mu.Lock()
	e.Seq = len(r.Events)
	r.Events = append(r.Events, e)
	r.mu.Unlock()
}

func errText(err error) string {
	if err == nil {
		return ""
	}
	return err.Error()
}

func (r *Recorder) Print(l *label.Label, line string) {
	r.add(Event{Kind: "Print", Label: l.String(), Text: line})
}
func (r *Recorder) RequirementLoading(*label.Label, string)           {}
func (r *Recorder) RequirementLoaded(*label.Label, string)            {}
func (r *Recorder) RequirementLoadFailed(*label.Label, string, error) {}
func (r *Recorder) ModuleLoading(l *label.Label) {
	r.add(Event{Kind: "ModuleLoading", Label: l.String()})
}
func (r *Recorder) ModuleLoaded(l *label.Label) {}
func (r *Recorder) ModuleLoadFailed(l *label.Label, err error) {
	r.add(Event{Kind: "ModuleLoadFailed", Label: l.String(), Text: errText(err), Err: true})
}
func (r *Recorder) LoadDone(err error) {
	r.add(Event{Kind: "LoadDone", Text: errText(err), Err: err != nil})
}
func (r *Recorder) TargetUpToDate(l *label.Label) { r.add(Event{Kind: "UpToDate", Label: l.String()}) }
func (r *Recorder) TargetFailed(l *label.Label, err error) {
	r.add(Event{Kind: "Failed", Label: l.String(), Text: errText(err), Err: true})
}
func (r *Recorder) TargetSucceeded(l *label.Label, changed bool) {
	r.add(Event{Kind: "Succeeded", Label: l.String(), Changed: changed})
}
func (r *Recorder) RunDone(err error) {
	r.add(Event{Kind: "RunDone", Text: errText(err), Err: err != nil})
}
func (r *Recorder) FileChanged(*label.Label) {}
func (r *Recorder) TargetEvaluating(l *label.Label, reason string, d diff.ValueDiff) {
	e := Event{Kind: "Evaluating", Label: l.String(), Text: reason}
	if d != nil && !walkable(d.Old(), d.New()) {
		// a damaged record may decode to data that is small in memory and astronomically large when it is
		// walked path by path (tuples shared through the memo); the harness's own checks would never finish
		e.HasDiff = true
		e.Unwalkable = true
	} else if d != nil {
		e.HasDiff = true
		e.DiffKeys, e.SameKeys = envKeys(d)
		func() {
			defer func() {
				if p := recover(); p != nil {
					e.Problem = fmt.Sprintf("walking the diff panicked: %v", p)
				}
			}()
			ck := &diffcheck.Checker{}
			e.Problem = ck.Faithful(d, d.Old(), d.New(), "$")
		}()
	}
	r.add(e)
}

// DifferingEnvKeys computes, independently of dawn's reason string, which top-level parts of the
// two environments carried by the diff differ; SameEnvKeys the parts present in either that do not.
// The part names are taken from the environments themselves.
func DifferingEnvKeys(d diff.ValueDiff) []string {
	differ, _ := envKeys(d)
	return differ
}

// SameEnvKeys: see DifferingEnvKeys.
func SameEnvKeys(d diff.ValueDiff) []string {
	_, same := envKeys(d)
	return same
}

// walkable: visiting the values path by path takes at most a few million steps.
func walkable(vs ...starlark.Value) bool {
	budget := 4 << 20
	onPath := map[starlark.Value]bool{} // mutable containers being visited: a cycle is not walked again
	var walk func(v starlark.Value, depth int) bool
	walk = func(v starlark.Value, depth int) bool {
		if budget--; budget < 0 || depth > 5000 {
			return false
		}
		switch v.(type) {
		case *starlark.List, *starlark.Dict, *starlark.Set:
			if onPath[v] {
				return true
			}
			onPath[v] = true
			defer delete(onPath, v)
		}
		switch v := v.(type) {
		case starlark.Tuple:
			for _, e := range v {
				if !walk(e, depth+1) {
					return false
				}
			}
		case *starlark.List:
			for i := 0; i < v.Len(); i++ {
				if !walk(v.Index(i), depth+1) {
					return false
				}
			}
		case *starlark.Dict:
			for _, kv := range v.Items() {
				if !walk(kv[0], depth+1) || !walk(kv[1], depth+1) {
					return false
				}
			}
		case *starlark.Set:
			for _, e := range v.Elems() {
				if !walk(e, depth+1) {
					return false
				}
			}
		}
		return true
	}
	for _, v := range vs {
		if v != nil && !walk(v, 0) {
			return false
		}
	}
	return true
}

func envKeys(d diff.ValueDiff) (differ, same []string) {
	od, ok1 := d.Old().(*starlark.Dict)
	nd, ok2 := d.New().(*starlark.Dict)
	if !ok1 || !ok2 {
		return []string{"<environment is not a dict>"}, nil
	}
	var keys []string
	seen := map[string]bool{}
	for _, dict := range []*starlark.Dict{od, nd} {
		for _, k := range dict.Keys() {
			if ks, ok := k.(starlark.String); ok && !seen[string(ks)] {
				seen[string(ks)] = true
				keys = append(keys, string(ks))
			}
		}
	}
	for _, k := range keys {
		ov, oh, _ := od.Get(starlark.String(k))
		nv, nh, _ := nd.Get(starlark.String(k))
		if oh != nh {
			differ = append(differ, k)
		} else if eq, err := starlark.EqualDepth(ov, nv, 100000); err != nil || !eq {
			differ = append(differ, k)
		} else {
			same = append(same, k)
		}
	}
	return differ, same
}

// BuildReq describes one build.
type BuildReq struct {
	Label       string   `json:"label"`
	Always      bool     `json:"always,omitempty"`
	DryRun      bool     `json:"dry,omitempty"`
	Args        []string `json:"args,omitempty"`
	PreferIndex bool     `json:"preferindex,omitempty"`
	GC          string   `json:"gc,omitempty"` // "" | "before": run Project.GC() after load, before the build (as the test helper does)
	NoRun       bool     `json:"norun,omitempty"`
	// PathsFor: labels whose record paths (relative to .dawn/build) the result should report; they are
	// asked of dawn itself (VerifTargetInfoPath) so that no check depends on the layout of the state directory
	PathsFor []string `json:"pathsfor,omitempty"`
	Repeat   int      `json:"repeat,omitempty"` // run the same loaded Project this many extra times (as the REPL's run() does)
	// Steps are performed on the same loaded Project after the first run, as watch mode does: rewrite a
	// file, Reload, Run again.
	Steps []Step   `json:"steps,omitempty"`
	Order []string `json:"order,omitempty"` // package load order imposed through vf.gate (empty = free-running)
	// crash injection (child processes only)
	CrashSite  string `json:"crashsite,omitempty"`
	CrashLabel string `json:"crashlabel,omitempty"`
	CrashHit   int    `json:"crashhit,omitempty"`
	CountHits  bool   `json:"counthits,omitempty"`
	SaveJitter bool   `json:"savejitter,omitempty"` // child processes: short sleeps inside record writes, so that writes of parallel targets overlap
}

// Step is one action of a watch-style session on a loaded Project.
type Step struct {
	Kind  string `json:"kind"`            // "write" | "remove" | "reload" | "run"
	Path  string `json:"path,omitempty"`  // root-relative file (write, remove)
	Data  []byte `json:"data,omitempty"`  // new content (write)
	Label string `json:"label,omitempty"` // target to run (run; "" = the request's label)
	// Real: this run is an ordinary build whatever the request's Always / DryRun options say
	Real bool `json:"real,omitempty"`
}

// StepResult is the outcome of one Step.
type StepResult struct {
	Err      string   `json:"err,omitempty"`
	Targets  []string `json:"targets,omitempty"` // after a successful reload
	EventsAt int      `json:"eventsat"`          // index into Events where this step's events begin
}

// BuildResult is what one build produced.
type BuildResult struct {
	LoadErr     string            `json:"loaderr,omitempty"`
	RunErr      string            `json:"runerr,omitempty"`
	GCErr       string            `json:"gcerr,omitempty"`
	Panic       string            `json:"panic,omitempty"`
	Events      []Event           `json:"events"`
	Log         []LogEntry        `json:"log"`
	Crashed     bool              `json:"crashed,omitempty"` // child exited at the armed crash point
	ExitCode    int               `json:"exitcode,omitempty"`
	Stderr      string            `json:"stderr,omitempty"`
	Hits        []string          `json:"hits,omitempty"` // crash-point hits "site label" in order (counting mode)
	Targets     []string          `json:"targets,omitempty"`
	Sources     []string          `json:"sources,omitempty"`
	RecordPaths map[string]string `json:"recordpaths,omitempty"` // label -> record path relative to .dawn/build (see BuildReq.PathsFor)
	Steps       []StepResult      `json:"steps,omitempty"`
	LoadIndex   int               `json:"loadindex,omitempty"` // index into Events of the LoadDone event
	SnapLoad    string            `json:"snapload,omitempty"`  // tree+state hash right after Load (dry runs)
	SnapRun     string            `json:"snaprun,omitempty"`   // tree+state hash right after Run
}

// OK reports whether load and run succeeded.
func (r *BuildResult) OK() bool {
	return r.LoadErr == "" && r.RunErr == "" && r.Panic == "" && !r.Crashed
}

// Executed returns the labels whose bodies started, in order.
func (r *BuildResult) Executed() []string {
	var out []string
	for _, e := range r.Log {
		if e.Phase == "start" {
			out = append(out, e.Label)
		}
	}
	return out
}

// EvaluatingSet returns the labels with a TargetEvaluating event (function targets only when fnOnly).
func (r *BuildResult) EvaluatingSet(fnOnly bool) []string {
	seen := map[string]bool{}
	var out []string
	for _, e := range r.Events {
		if e.Kind == "Evaluating" && !seen[e.Label] {
			if fnOnly && strings.HasPrefix(e.Label, "source:") {
				continue
			}
			seen[e.Label] = true
			out = append(out, e.Label)
		}
	}
	sort.Strings(out)
	return out
}

// Sim is one simulated project on disk.
type Sim struct {
	Env    *Env
	M      *Model
	logOff int
	sess   *session // see WatchBuild
}

// NewSim creates the directories and writes the initial tree.
func NewSim(m *Model) (*Sim, error) {
	base, err := os.MkdirTemp("", "projsim-")
	if err != nil {
		return nil, err
	}
	s := &Sim{Env: &Env{Base: base}, M: m}
	os.MkdirAll(s.Env.Root(), 0o755)
	os.MkdirAll(s.Env.Ctl(), 0o755)
	s.Sync()
	return s, nil
}

// Close removes everything.
func (s *Sim) Close() { os.RemoveAll(s.Env.Base) }

func isProduct(rel string) bool {
	return rel == ".dawn" || strings.HasPrefix(rel, ".dawn/") || rel == "out" || strings.HasPrefix(rel, "out/") || strings.HasSuffix(rel, ".gen")
}

// Sync makes the tree on disk equal to the model's rendering: writes files whose content
// differs, removes files and directories the model no longer has (never build products).
func (s *Sim) Sync() {
	want := s.M.Render()
	root := s.Env.Root()
	for rel, content := range want {
		p := filepath.Join(root, filepath.FromSlash(rel))
		if content == SymlinkLoop {
			// a source that cannot be read: a symbolic link to itself (open fails with ELOOP)
			if fi, err := os.Lstat(p); err == nil && fi.Mode()&os.ModeSymlink != 0 {
				continue
			}
			os.MkdirAll(filepath.Dir(p), 0o755)
			os.Remove(p)
			os.Symlink(filepath.Base(p), p)
			continue
		}
		if fi, err := os.Lstat(p); err == nil && fi.Mode()&os.ModeSymlink != 0 {
			os.Remove(p)
		}
		if cur, err := os.ReadFile(p); err == nil && string(cur) == content {
			continue
		}
		os.MkdirAll(filepath.Dir(p), 0o755)
		os.WriteFile(p, []byte(content), 0o644)
	}
	var stale []string
	filepath.WalkDir(root, func(p string, d fs.DirEntry, err error) error {
		if err != nil || p == root {
			return nil
		}
		rel := filepath.ToSlash(p[len(root)+1:])
		if isProduct(rel) {
			if d.IsDir() {
				return filepath.SkipDir
			}
			return nil
		}
		if d.IsDir() {
			return nil
		}
		if _, ok := want[rel]; !ok {
			stale = append(stale, p)
		}
		return nil
	})
	for _, p := range stale {
		os.Remove(p)
	}
	// remove now-empty directories the model does not mention (source dirs whose files are all gone stay if listed)
}

// SymlinkLoop as the content of a model file makes Sync create a self-referential symbolic link.
const SymlinkLoop = "\x00symlink-loop\x00"

// Touch rewrites a file with identical content (new mtime / inode).
func (s *Sim) Touch(rel string, recreate bool) {
	p := filepath.Join(s.Env.Root(), filepath.FromSlash(rel))
	data, err := os.ReadFile(p)
	if err != nil {
		return
	}
	if recreate {
		os.Remove(p)
	}
	os.WriteFile(p, data, 0o644)
}

// SetFail arms or disarms the injected failure of a target body.
func (s *Sim) SetFail(name string, on bool) {
	p := filepath.Join(s.Env.Ctl(), "fail_"+name)
	if on {
		os.WriteFile(p, []byte("x"), 0o644)
	} else {
		os.Remove(p)
	}
}

// SetWipe arms the removal of the state directory's temp folder by a target body (right before
// its injected failure point).
func (s *Sim) SetWipe(name string) {
	os.WriteFile(filepath.Join(s.Env.Ctl(), "wipe_"+name), []byte("x"), 0o644)
}

// ClearFails disarms every injected failure.
func (s *Sim) ClearFails() {
	ents, _ := os.ReadDir(s.Env.Ctl())
	for _, e := range ents {
		os.Remove(filepath.Join(s.Env.Ctl(), e.Name()))
	}
}

// FlagArgs returns the command-line arguments for the model's flag value.
func (m *Model) FlagArgs() []string {
	if m.FlagArg == "" {
		return nil
	}
	for i := range m.Targets {
		t := &m.Targets[i]
		if !t.Removed && m.effectiveBody(t) == 7 {
			name := "mode"
			if d := m.pkgDir(t.Pkg); d != "" {
				name = strings.ReplaceAll(d, "/", ".") + ".mode"
			}
			return []string{"--" + name + "=" + m.FlagArg}
		}
	}
	return nil
}

// HashTree hashes names and contents below dir (optionally only a sub-directory).
func HashTree(dir string, skip func(rel string) bool) string {
	h := sha256.New()
	var paths []string
	filepath.WalkDir(dir, func(p string, d fs.DirEntry, err error) error {
		if err != nil || p == dir {
			return nil
		}
		rel := filepath.ToSlash(p[len(dir)+1:])
		if skip != nil && skip(rel) {
			if d.IsDir() {
				return filepath.SkipDir
			}
			return nil
		}
		if d.IsDir() {
			paths = append(paths, rel+"/")
		} else {
			paths = append(paths, rel)
		}
		return nil
	})
	sort.Strings(paths)
	for _, rel := range paths {
		h.Write([]byte(rel))
		h.Write([]byte{0})
		if !strings.HasSuffix(rel, "/") {
			data, _ := os.ReadFile(filepath.Join(dir, filepath.FromSlash(rel)))
			h.Write(data)
			h.Write([]byte{0})
		}
	}
	return hex.EncodeToString(h.Sum(nil))
}

// RunBuild performs one build in this process on a fresh Load.
func RunBuild(env *Env, req BuildReq, logOff int) (res BuildResult, newOff int) {
	rec := &Recorder{}
	env = &Env{Base: env.Base, Order: req.Order}
	baseGoroutines := runtime.NumGoroutine()
	func() {
		defer func() {
			if p := recover(); p != nil {
				res.Panic = fmt.Sprint(p)
			}
		}()
		proj, err := dawn.Load(env.Root(), &dawn.LoadOptions{Args: req.Args, Events: rec, Builtins: env.Builtins(), PreferIndex: req.PreferIndex})
		if err != nil {
			res.LoadErr = err.Error()
			return
		}
		res.LoadIndex = len(rec.Events)
		for _, t := range proj.Targets() {
			res.Targets = append(res.Targets, t.Label().String())
		}
		res.Sources = proj.Sources()
		if len(req.PathsFor) > 0 {
			res.RecordPaths = map[string]string{}
			state := filepath.Join(env.Root(), ".dawn", "build")
			for _, ls := range req.PathsFor {
				if l, err := label.Parse(ls); err == nil {
					if rel, err := filepath.Rel(state, dawn.VerifTargetInfoPath(proj, l)); err == nil {
						res.RecordPaths[ls] = filepath.ToSlash(rel)
					}
				}
			}
		}
		if req.GC == "before" {
			if err := proj.GC(); err != nil {
				res.GCErr = err.Error()
			}
		}
		if req.NoRun && len(req.Steps) == 0 {
			return
		}
		l, err := label.Parse(req.Label)
		if err != nil {
			res.RunErr = "bad label: " + err.Error()
			return
		}
		if req.DryRun {
			res.SnapLoad = HashTree(env.Root(), nil)
		}
		if !req.NoRun {
			err = proj.Run(l, &dawn.RunOptions{Always: req.Always, DryRun: req.DryRun})
			for i := 0; i < req.Repeat && err == nil; i++ {
				err = proj.Run(l, &dawn.RunOptions{Always: req.Always, DryRun: req.DryRun})
			}
		}
		if req.DryRun {
			res.SnapRun = HashTree(env.Root(), nil)
		}
		settle := func() {
			// After a cyclic-dependency error the runner returns while other targets may still be
			// running (or not even started); wait until the goroutines of this run are gone
			// before looking at the events or touching the tree again.
			settleGoroutines(baseGoroutines, rec)
		}
		if err != nil {
			res.RunErr = err.Error()
			settle()
		}
		reloadFailed := false
		for _, st := range req.Steps {
			rec.mu.Lock()
			sr := StepResult{EventsAt: len(rec.Events)}
			rec.mu.Unlock()
			switch st.Kind {
			case "write":
				p := filepath.Join(env.Root(), filepath.FromSlash(st.Path))
				os.MkdirAll(filepath.Dir(p), 0o755)
				if err := os.WriteFile(p, st.Data, 0o644); err != nil {
					sr.Err = err.Error()
				}
			case "remove":
				os.Remove(filepath.Join(env.Root(), filepath.FromSlash(st.Path)))
			case "unfail":
				// disarm every injected body failure (the user fixed whatever made the body fail)
				if fs, err := filepath.Glob(filepath.Join(env.Ctl(), "fail_*")); err == nil {
					for _, f := range fs {
						os.Remove(f)
					}
				}
			case "reload":
				if err := proj.Reload(); err != nil {
					sr.Err = err.Error()
					reloadFailed = true
				} else {
					reloadFailed = false
					for _, t := range proj.Targets() {
						sr.Targets = append(sr.Targets, t.Label().String())
					}
				}
			case "run":
				if reloadFailed {
					// watch mode does not build after a failed reload
					sr.Err = "skipped: the last reload failed"
					break
				}
				sl := l
				if st.Label != "" {
					if pl, err := label.Parse(st.Label); err == nil {
						sl = pl
					}
				}
				opts := &dawn.RunOptions{Always: req.Always, DryRun: req.DryRun}
				if st.Real {
					opts = &dawn.RunOptions{}
				}
				if err := proj.Run(sl, opts); err != nil {
					sr.Err = err.Error()
					settle()
				}
			}
			res.Steps = append(res.Steps, sr)
		}
	}()
	rec.mu.Lock()
	res.Events = append([]Event{}, rec.Events...)
	rec.mu.Unlock()
	res.Log, newOff = env.ReadLog(logOff)
	return res, newOff
}

// Build runs one in-process build of this sim.
func (s *Sim) Build(req BuildReq) BuildResult {
	if req.Args == nil {
		req.Args = s.M.FlagArgs()
	}
	res, off := RunBuild(s.Env, req, s.logOff)
	s.logOff = off
	return res
}

// SkipLog advances the log offset past anything written so far (after child builds).
func (s *Sim) SkipLog() []LogEntry {
	l, off := s.Env.ReadLog(s.logOff)
	s.logOff = off
	return l
}

// ReadFile reads a root-relative file ("" and false when absent).
func (s *Sim) ReadFile(rel string) (string, bool) {
	data, err := os.ReadFile(filepath.Join(s.Env.Root(), filepath.FromSlash(rel)))
	if err != nil {
		return "", false
	}
	return string(data), true
}

// CleanBuild builds label from scratch in a copy of the current tree (no build state, no
// products) and returns the result plus the products it made (root-relative path -> content).
func (s *Sim) CleanBuild(req BuildReq) (BuildResult, map[string]string) {
	twin, err := NewSim(s.M)
	if err != nil {
		return BuildResult{LoadErr: "twin: " + err.Error()}, nil
	}
	defer twin.Close()
	// control files (armed failures) are copied
	ents, _ := os.ReadDir(s.Env.Ctl())
	for _, e := range ents {
		os.WriteFile(filepath.Join(twin.Env.Ctl(), e.Name()), []byte("x"), 0o644)
	}
	res := twin.Build(req)
	products := map[string]string{}
	root := twin.Env.Root()
	filepath.WalkDir(root, func(p string, d fs.DirEntry, err error) error {
		if err != nil || d.IsDir() {
			return nil
		}
		rel := filepath.ToSlash(p[len(root)+1:])
		if strings.HasPrefix(rel, "out/") || strings.HasSuffix(rel, ".gen") {
			data, _ := os.ReadFile(p)
			products[rel] = string(data)
		}
		return nil
	})
	return res, products
}

// CloneFull copies the whole simulated project including build state, products, control
// files and the execution log into a new Sim (for "what would a real build do now" twins).
func (s *Sim) CloneFull() (*Sim, error) {
	base, err := os.MkdirTemp("", "projsim-clone-")
	if err != nil {
		return nil, err
	}
	err = filepath.WalkDir(s.Env.Base, func(p string, d fs.DirEntry, err error) error {
		if err != nil {
			return err
		}
		rel, _ := filepath.Rel(s.Env.Base, p)
		dst := filepath.Join(base, rel)
		if d.IsDir() {
			return os.MkdirAll(dst, 0o755)
		}
		if d.Type()&os.ModeSymlink != 0 {
			target, err := os.Readlink(p)
			if err != nil {
				return err
			}
			return os.Symlink(target, dst)
		}
		data, err := os.ReadFile(p)
		if err != nil {
			return err
		}
		return os.WriteFile(dst, data, 0o644)
	})
	if err != nil {
		os.RemoveAll(base)
		return nil, err
	}
	c := &Sim{Env: &Env{Base: base}, M: s.M.Clone(), logOff: s.logOff}
	return c, nil
}

// ---- watch-style sessions ------------------------------------------------------------------

// session is a Project kept loaded across operations of a history, as `dawn watch` and the REPL keep
// one: every later build on it is Reload followed by Run.
type session struct {
	proj *dawn.Project
	rec  *Recorder
	args []string
}

// WatchBuild builds label on the sim's long-lived Project: the first call loads it (as a fresh
// Load does), later calls Reload it. The result has the same shape as that of Build; LoadErr holds a
// Reload error.
func (s *Sim) WatchBuild(req BuildReq) (res BuildResult) {
	if req.Args == nil {
		req.Args = s.M.FlagArgs()
	}
	baseGoroutines := runtime.NumGoroutine()
	defer func() {
		if p := recover(); p != nil {
			res.Panic = fmt.Sprint(p)
			s.sess = nil
		}
		if s.sess != nil {
			s.sess.rec.mu.Lock()
			res.Events = append([]Event{}, s.sess.rec.Events...)
			s.sess.rec.Events = nil
			s.sess.rec.mu.Unlock()
		}
		res.Log, s.logOff = s.Env.ReadLog(s.logOff)
	}()
	if s.sess != nil && fmt.Sprint(s.sess.args) != fmt.Sprint(req.Args) {
		s.sess = nil // other command-line flags: a new process
	}
	if s.sess == nil {
		rec := &Recorder{}
		env := &Env{Base: s.Env.Base}
		proj, err := dawn.Load(env.Root(), &dawn.LoadOptions{Args: req.Args, Events: rec, Builtins: env.Builtins()})
		if err != nil {
			res.LoadErr = err.Error()
			res.Events = append([]Event{}, rec.Events...)
			return res
		}
		s.sess = &session{proj: proj, rec: rec, args: req.Args}
	} else if err := s.sess.proj.Reload(); err != nil {
		res.LoadErr = err.Error()
		return res
	}
	s.sess.rec.mu.Lock()
	res.LoadIndex = len(s.sess.rec.Events)
	s.sess.rec.mu.Unlock()
	l, err := label.Parse(req.Label)
	if err != nil {
		res.RunErr = "bad label: " + err.Error()
		return res
	}
	if err := s.sess.proj.Run(l, &dawn.RunOptions{Always: req.Always, DryRun: req.DryRun}); err != nil {
		res.RunErr = err.Error()
		settleGoroutines(baseGoroutines, s.sess.rec)
	}
	return res
}

// OldFormatRecord rewrites the persisted record of function target id as a dawn version before the
// "parameters" part of function fingerprints wrote it: the same environment, pickled with
// three-argument function objects. (dawn still reads such records.) It reports false when the target
// cannot be rewritten that way (no record yet, closure-made function).
func (s *Sim) OldFormatRecord(id int) bool {
	t := s.M.Targets[id]
	if t.Removed || s.M.effectiveBody(&t) == 2 {
		return false
	}
	env := &Env{Base: s.Env.Base}
	proj, err := dawn.Load(env.Root(), &dawn.LoadOptions{Args: s.M.FlagArgs(), Events: &Recorder{}, Builtins: env.Builtins()})
	if err != nil {
		return false
	}
	pkg, err := label.Parse(s.M.Pkgs[t.Pkg])
	if err != nil {
		return false
	}
	// the function value, through the module system: load it from the package's BUILD file
	thread, predeclared := proj.REPLEnv(io.Discard, pkg)
	src := fmt.Sprintf("load(%q, \"f%d\")\nFN = f%d\n", s.M.Pkgs[t.Pkg]+":BUILD.dawn", id, id)
	globals, err := starlark.ExecFile(thread, "<old-format>", src, predeclared)
	if err != nil {
		return false
	}
	fn, ok := globals["FN"].(*starlark.Function)
	if !ok {
		return false
	}
	inProgress := map[*starlark.Function]bool{}
	old := pickle.PicklerFunc(func(x starlark.Value) (string, string, starlark.Tuple, error) {
		if f, ok := x.(*starlark.Function); ok {
			if inProgress[f] {
				return "dawn", "Recursion", starlark.Tuple{starlark.String(f.Name())}, nil
			}
			inProgress[f] = true
		}
		mod, name, args, err := dawn.VerifEnvPickler.Pickle(x)
		if err == nil && mod == "dawn" && name == "Function" && len(args) > 3 {
			args = args[:3]
		}
		return mod, name, args, err
	})
	var buf bytes.Buffer
	if err := pickle.NewEncoder(&buf, old).Encode(fn); err != nil {
		return false
	}
	tl, err := label.Parse(s.M.Label(id))
	if err != nil {
		return false
	}
	path := dawn.VerifTargetInfoPath(proj, tl)
	data, err := os.ReadFile(path)
	if err != nil {
		return false
	}
	var rec map[string]any
	if json.Unmarshal(data, &rec) != nil {
		return false
	}
	if _, has := rec["stamp"]; !has {
		return false
	}
	rec["stamp"] = base64.StdEncoding.EncodeToString(buf.Bytes())
	out, _ := json.Marshal(rec)
	return os.WriteFile(path, out, 0o644) == nil
}

// settleGoroutines waits until the goroutines of a failed run have finished. A run that ends with an
// error (a cyclic dependency in particular) returns while other targets are still running; their
// events and log lines belong to this run. The number of goroutines from before the run is no reliable
// baseline (goroutines of earlier failed runs may be parked for good), so the run counts as settled
// when neither the goroutine count nor the number of recorded events has moved for 25 ms (count back
// where it started) or for a second (count still above). At most a minute.
func settleGoroutines(base int, rec *Recorder) {
	lastN, lastE, same := -1, -1, 0
	for i := 0; i < 12000; i++ {
		n := runtime.NumGoroutine()
		e := 0
		if rec != nil {
			rec.mu.Lock()
			e = len(rec.Events)
			rec.mu.Unlock()
		}
		if n == lastN && e == lastE {
			same++
			// back at (or below) the count from before the run: 25 ms without movement will do -
			// the count alone is not trusted, stragglers of an earlier run may have ended meanwhile;
			// above it: a full second
			if same >= 200 || (n <= base && same >= 5) {
				return
			}
		} else {
			lastN, lastE, same = n, e, 0
		}
		time.Sleep(5 * time.Millisecond)
	}
}
