package projsim

import (
	"crypto/sha256"
	"encoding/hex"
	"fmt"
	libos "github.com/pgavlin/dawn/lib/os"
	libsh "github.com/pgavlin/dawn/lib/sh"
	"os"
	"path/filepath"
	"sort"
	"strings"
	"sync"
	"time"

	"github.com/pgavlin/dawn/internal/verifhook"
	"github.com/pgavlin/dawn/util"
	"go.starlark.net/starlark"
	"go.starlark.net/starlarkstruct"
)

// Env is the environment of one simulated project: <Base>/root is the project, <Base>/exec.log
// the execution log written by bodies, <Base>/ctl holds control files (fail_<name>).
type Env struct {
	Base string
	mu   sync.Mutex

	// Order, when non-empty, serialises package loads: a BUILD file's vf.gate(pkg) waits until
	// every package listed before pkg has called vf.done.
	Order    []string
	gateMu   sync.Mutex
	gateCond *sync.Cond
	doneSet  map[string]bool
}

func (e *Env) gate(pkg string) {
	if len(e.Order) == 0 {
		return
	}
	e.gateMu.Lock()
	defer e.gateMu.Unlock()
	if e.gateCond == nil {
		e.gateCond = sync.NewCond(&e.gateMu)
		e.doneSet = map[string]bool{}
		// safety valve: a package that fails to load never calls done
		go func() {
			for i := 0; i < 200; i++ {
				time.Sleep(50 * time.Millisecond)
				e.gateMu.Lock()
				e.gateCond.Broadcast()
				e.gateMu.Unlock()
			}
		}()
	}
	deadline := time.Now().Add(5 * time.Second)
	for {
		ready := true
		for _, p := range e.Order {
			if p == pkg {
				break
			}
			if !e.doneSet[p] {
				ready = false
			}
		}
		if ready || time.Now().After(deadline) {
			return
		}
		e.gateCond.Wait()
	}
}

func (e *Env) done(pkg string) {
	if len(e.Order) == 0 {
		return
	}
	e.gateMu.Lock()
	if e.gateCond == nil {
		e.gateCond = sync.NewCond(&e.gateMu)
		e.doneSet = map[string]bool{}
	}
	e.doneSet[pkg] = true
	e.gateCond.Broadcast()
	e.gateMu.Unlock()
}

func (e *Env) Root() string    { return filepath.Join(e.Base, "root") }
func (e *Env) LogPath() string { return filepath.Join(e.Base, "exec.log") }
func (e *Env) Ctl() string     { return filepath.Join(e.Base, "ctl") }

// VF builds the `vf` builtin module bound to this environment.
func (e *Env) VF() *starlarkstruct.Module {
	root := e.Root()
	b := func(name string, fn func(thread *starlark.Thread, args starlark.Tuple) (starlark.Value, error)) *starlark.Builtin {
		return starlark.NewBuiltin("vf."+name, func(thread *starlark.Thread, _ *starlark.Builtin, args starlark.Tuple, _ []starlark.Tuple) (starlark.Value, error) {
			return fn(thread, args)
		})
	}
	str := func(v starlark.Value) string {
		if s, ok := v.(starlark.String); ok {
			return string(s)
		}
		return v.String()
	}
	return &starlarkstruct.Module{Name: "vf", Members: starlark.StringDict{
		"read": b("read", func(_ *starlark.Thread, args starlark.Tuple) (starlark.Value, error) {
			data, err := os.ReadFile(filepath.Join(root, filepath.FromSlash(str(args[0]))))
			if err != nil {
				return starlark.String("<missing>"), nil
			}
			return starlark.String(data), nil
		}),
		"listdir": b("listdir", func(_ *starlark.Thread, args starlark.Tuple) (starlark.Value, error) {
			dir := filepath.Join(root, filepath.FromSlash(str(args[0])))
			ents, err := os.ReadDir(dir)
			if err != nil {
				return starlark.String("<missing dir>"), nil
			}
			var names []string
			for _, en := range ents {
				names = append(names, en.Name())
			}
			sort.Strings(names)
			var sb strings.Builder
			for _, n := range names {
				data, _ := os.ReadFile(filepath.Join(dir, n))
				fmt.Fprintf(&sb, "%s=%s;", n, data)
			}
			return starlark.String(sb.String()), nil
		}),
		"write": b("write", func(_ *starlark.Thread, args starlark.Tuple) (starlark.Value, error) {
			p := filepath.Join(root, filepath.FromSlash(str(args[0])))
			os.MkdirAll(filepath.Dir(p), 0o755)
			if err := os.WriteFile(p, []byte(str(args[1])), 0o644); err != nil {
				return nil, err
			}
			return starlark.None, nil
		}),
		"digest": b("digest", func(_ *starlark.Thread, args starlark.Tuple) (starlark.Value, error) {
			h := sha256.New()
			for _, a := range args {
				h.Write([]byte(a.String()))
				h.Write([]byte{0})
			}
			return starlark.String(hex.EncodeToString(h.Sum(nil))), nil
		}),
		"log": b("log", func(_ *starlark.Thread, args starlark.Tuple) (starlark.Value, error) {
			e.mu.Lock()
			defer e.mu.Unlock()
			f, err := os.OpenFile(e.LogPath(), os.O_APPEND|os.O_CREATE|os.O_WRONLY, 0o644)
			if err != nil {
				return nil, err
			}
			fmt.Fprintf(f, "%s %s\n", str(args[0]), str(args[1]))
			f.Close()
			return starlark.None, nil
		}),
		"wipe_if": b("wipe_if", func(_ *starlark.Thread, args starlark.Tuple) (starlark.Value, error) {
			// models a clean-style body (or a full disk): the state directory's temp folder disappears
			if _, err := os.Stat(filepath.Join(e.Ctl(), "wipe_"+str(args[0]))); err == nil {
				os.RemoveAll(filepath.Join(root, ".dawn", "build", "temp"))
			}
			return starlark.None, nil
		}),
		"fail_if": b("fail_if", func(_ *starlark.Thread, args starlark.Tuple) (starlark.Value, error) {
			if _, err := os.Stat(filepath.Join(e.Ctl(), "fail_"+str(args[0]))); err == nil {
				return nil, fmt.Errorf("injected failure of %s", str(args[0]))
			}
			return starlark.None, nil
		}),
		"emit": b("emit", func(thread *starlark.Thread, args starlark.Tuple) (starlark.Value, error) {
			stdout, _ := util.Stdio(thread)
			// one buffer reused for every chunk and scribbled over after each Write, as a process
			// pipe copied with io.Copy behaves (a Writer must not retain the slice it is given)
			buf := make([]byte, 0, 256)
			for _, a := range args {
				buf = append(buf[:0], str(a)...)
				if _, err := stdout.Write(buf); err != nil {
					return nil, err
				}
				for i := range buf {
					buf[i] = '#'
				}
			}
			return starlark.None, nil
		}),
		"gate": b("gate", func(_ *starlark.Thread, args starlark.Tuple) (starlark.Value, error) {
			e.gate(str(args[0]))
			return starlark.None, nil
		}),
		"done": b("done", func(_ *starlark.Thread, args starlark.Tuple) (starlark.Value, error) {
			e.done(str(args[0]))
			return starlark.None, nil
		}),
		"point": b("point", func(_ *starlark.Thread, args starlark.Tuple) (starlark.Value, error) {
			verifhook.Yield("vf.point")
			verifhook.Crash("body."+str(args[1]), str(args[0]))
			return starlark.None, nil
		}),
	}}
}

// Builtins returns the predeclared names injected into every BUILD file.
func (e *Env) Builtins() starlark.StringDict {
	// like the CLI, which predeclares its os, sh and json modules
	return starlark.StringDict{"vf": e.VF(), "os": libos.Module, "sh": libsh.Module}
}

// LogEntry is one line of the execution log.
type LogEntry struct {
	Label string `json:"label"`
	Phase string `json:"phase"`
}

// ReadLog returns the execution log entries from offset on and the new offset.
func (e *Env) ReadLog(offset int) ([]LogEntry, int) {
	data, err := os.ReadFile(e.LogPath())
	if err != nil {
		return nil, offset
	}
	lines := strings.Split(strings.TrimRight(string(data), "\n"), "\n")
	if len(data) == 0 {
		lines = nil
	}
	var out []LogEntry
	for i := offset; i < len(lines); i++ {
		f := strings.Fields(lines[i])
		if len(f) == 2 {
			out = append(out, LogEntry{f[0], f[1]})
		}
	}
	return out, len(lines)
}
