// Package rungraph executes generated dependency graphs on the real runner.Run under the
// cooperative scheduler (or jitter mode) with harness Targets that record everything the
// runner does to them. C04, C05 and C09 apply their oracles to the same observation.
package rungraph

import (
	"errors"
	"fmt"
	"runtime"
	"sort"
	"sync"
	"sync/atomic"
	"time"

	"github.com/pgavlin/dawn/internal/verifhook"
	"github.com/pgavlin/dawn/runner"
	"github.com/pgavlin/dawn/verif/cosched"
	"pgregory.net/rapid"
)

// Node is one target of a generated graph.
type Node struct {
	Reqs    [][]int `json:"reqs,omitempty"` // dependency requests, in order; each is one EvaluateTargets call
	Fail    bool    `json:"fail,omitempty"` // body fails after its dependencies
	Unknown bool    `json:"unknown,omitempty"`
	// Tolerant targets carry on with their remaining requests and their body after a dependency
	// failed (a runner.Target may do that; dawn's own targets give up).
	Tolerant bool `json:"tolerant,omitempty"`
	// Barrier nodes wait (spinning, at most 2 ms) until every barrier node of the case has arrived,
	// right before their first dependency request: free-running cases only. This aligns dependents
	// that request the same fresh targets to within a few hundred nanoseconds.
	Barrier bool `json:"barrier,omitempty"`
	Yields  int  `json:"yields,omitempty"` // scheduling points inside the body
	Pre     int  `json:"pre,omitempty"`    // scheduling points in the body before the first dependency request (a target that asks late)
}

// Case is a graph plus a schedule.
type Case struct {
	Nodes []Node         `json:"nodes"`
	Root  int            `json:"root"`
	Pol   cosched.Policy `json:"pol"`
}

type nodeErr struct {
	label string
	what  string
}

func (e *nodeErr) Error() string { return e.label + ": " + e.what }

type tgt struct {
	o   *Obs
	idx int
}

// Obs is everything observed during one run.
type Obs struct {
	mu    sync.Mutex
	c     *Case
	Limit int

	Loads, Evals []int
	Finished     []bool
	Outcome      []error
	Objects      []*tgt
	Started      []bool

	Active, MaxActive int
	OverLimitAt       string

	SharedUnfinished int // requests of a dependency that another dependent had already requested and that was not finished
	requested        []int
	MaxConcurrentET  int // goroutines inside EvaluateTargets at the same time
	inET             int
	Queued           bool // a goroutine was observed waiting for a slot (more wanting than the limit)
	CycleErrs        []string
	ResultMismatch   string
	UnfinishedAtRet  string
	WaitChain        int

	RunErr            error
	RunDone           bool
	ActiveAtRunReturn int
	Res               cosched.Result
	Sched             *cosched.S
	Panic             any

	barrierWant    int
	barrierArrived atomic.Int32

	events    []slotEvt
	skipClaim [][2]int // (dependent, dependency): handed an error for a dependency that had not been evaluated
}

// slotEvt is one change of the set of executing targets. The executing count is computed from
// the log once the run is over (account), because whether a loaded target's interval ends with
// LoadTarget or with Evaluate is only known then: a runner may decide not to evaluate a target it
// has loaded.
type slotEvt struct {
	kind string // loadStart loadFail loadEnd evalEnd etEnter etExit runReturn
	idx  int
}

func (o *Obs) barrier() {
	o.barrierArrived.Add(1)
	deadline := time.Now().Add(2 * time.Millisecond)
	for int(o.barrierArrived.Load()) < o.barrierWant && time.Now().Before(deadline) {
	}
}

func label(i int) string { return fmt.Sprintf("n%d", i) }

func (o *Obs) inc(where string) {
	o.Active++
	if o.Active > o.MaxActive {
		o.MaxActive = o.Active
	}
	if o.Active > o.Limit && o.OverLimitAt == "" {
		o.OverLimitAt = fmt.Sprintf("%s: %d targets executing with a limit of %d", where, o.Active, o.Limit)
	}
}

// account computes Active, MaxActive, OverLimitAt and ActiveAtRunReturn from the event log. A
// target is executing from the start of its LoadTarget to the end of its Evaluate, minus the time
// it spends inside EvaluateTargets; a target that is loaded but never evaluated is executing only
// while it is being loaded.
func (o *Obs) account() {
	o.Active, o.MaxActive, o.OverLimitAt, o.ActiveAtRunReturn = 0, 0, "", 0
	for _, e := range o.events {
		switch e.kind {
		case "loadStart":
			o.inc("LoadTarget(" + label(e.idx) + ")")
		case "loadFail", "evalEnd", "etEnter":
			o.Active--
		case "loadEnd":
			if o.Evals[e.idx] == 0 {
				o.Active--
			}
		case "etExit":
			o.inc("after EvaluateTargets in " + label(e.idx))
		case "runReturn":
			o.ActiveAtRunReturn = o.Active
		}
	}
	for _, sc := range o.skipClaim {
		if o.Evals[sc[1]] > 0 && o.UnfinishedAtRet == "" {
			o.UnfinishedAtRet = fmt.Sprintf("%s continued past its dependency request with an error for %s, which had not been evaluated yet and was evaluated afterwards", label(sc[0]), label(sc[1]))
		}
	}
}

func (o *Obs) evt(kind string, idx int) { o.events = append(o.events, slotEvt{kind, idx}) }

func (o *Obs) LoadTarget(lbl string) (runner.Target, error) {
	var idx int
	fmt.Sscanf(lbl, "n%d", &idx)
	o.mu.Lock()
	o.Loads[idx]++
	o.Started[idx] = true
	o.evt("loadStart", idx)
	o.mu.Unlock()
	verifhook.Yield("harness.load")
	if idx >= len(o.c.Nodes) || o.c.Nodes[idx].Unknown {
		err := &nodeErr{lbl, "unknown target"}
		o.mu.Lock()
		o.Outcome[idx] = err
		o.Finished[idx] = true
		o.evt("loadFail", idx)
		o.mu.Unlock()
		return nil, err
	}
	t := &tgt{o: o, idx: idx}
	o.mu.Lock()
	o.Objects[idx] = t
	o.evt("loadEnd", idx)
	o.mu.Unlock()
	return t, nil
}

func (t *tgt) Evaluate(engine runner.Engine) (err error) {
	o, n := t.o, t.o.c.Nodes[t.idx]
	o.mu.Lock()
	o.Evals[t.idx]++
	o.mu.Unlock()
	defer func() {
		o.mu.Lock()
		o.Outcome[t.idx] = err
		o.Finished[t.idx] = true
		o.evt("evalEnd", t.idx)
		o.mu.Unlock()
	}()
	depFailed := false
	if n.Barrier && o.c.Pol.Mode == "jitter" {
		o.barrier()
	}
	for i := 0; i < n.Pre; i++ {
		verifhook.Yield("harness.pre")
	}
	for _, req := range n.Reqs {
		labels := make([]string, len(req))
		for i, d := range req {
			labels[i] = label(d)
		}
		o.mu.Lock()
		for _, d := range req {
			if o.requested[d] > 0 && !o.Finished[d] {
				o.SharedUnfinished++
			}
			o.requested[d]++
		}
		o.evt("etEnter", t.idx)
		o.inET++
		if o.inET > o.MaxConcurrentET {
			o.MaxConcurrentET = o.inET
		}
		o.mu.Unlock()

		results := engine.EvaluateTargets(labels...)

		o.mu.Lock()
		o.inET--
		o.evt("etExit", t.idx)
		if len(results) != len(req) && o.ResultMismatch == "" {
			o.ResultMismatch = fmt.Sprintf("%s: %d results for %d labels", label(t.idx), len(results), len(req))
		}
		for i, r := range results {
			if i >= len(req) {
				break
			}
			d := req[i]
			var ce runner.CyclicDependencyError
			if errors.As(r.Error, &ce) {
				o.CycleErrs = append(o.CycleErrs, fmt.Sprintf("%s<-%s: %s", label(t.idx), label(d), string(ce)))
				depFailed = true
				continue
			}
			if !o.Finished[d] {
				if o.Evals[d] == 0 && r.Error != nil {
					// The runner finished the dependency without evaluating it (its outcome is the
					// runner's own error). account checks that it is not evaluated later after all.
					o.skipClaim = append(o.skipClaim, [2]int{t.idx, d})
				} else if o.UnfinishedAtRet == "" {
					o.UnfinishedAtRet = fmt.Sprintf("%s continued past its dependency request while %s had not finished", label(t.idx), label(d))
				}
			}
			if o.Finished[d] {
				// the dependency's own error, possibly wrapped
				same := r.Error == o.Outcome[d] || (r.Error != nil && o.Outcome[d] != nil && errors.Is(r.Error, o.Outcome[d]))
				if !same && o.ResultMismatch == "" {
					o.ResultMismatch = fmt.Sprintf("%s was handed error %v for %s, whose actual outcome is %v", label(t.idx), r.Error, label(d), o.Outcome[d])
				}
				var want runner.Target
				if o.Objects[d] != nil {
					want = o.Objects[d]
				}
				// (for a dependency that failed, a runner may hand over no target at all: the statement speaks of
				// the outcome, and the outcome of a failed target is its error)
				if r.Target != want && !(o.Outcome[d] != nil && r.Target == nil) && o.ResultMismatch == "" {
					o.ResultMismatch = fmt.Sprintf("%s was handed target %v for %s, want the object LoadTarget returned (%v)", label(t.idx), r.Target, label(d), want)
				}
			}
			if r.Error != nil {
				depFailed = true
			}
		}
		o.mu.Unlock()
		if depFailed && !n.Tolerant {
			return &nodeErr{label(t.idx), "dependency failed"}
		}
	}
	for i := 0; i < n.Yields; i++ {
		verifhook.Yield("harness.body")
	}
	if n.Fail {
		return &nodeErr{label(t.idx), "body failed"}
	}
	return nil
}

// Execute runs the case once. watchdog bounds the wall time (a hit is inconclusive).
func Execute(c *Case, watchdog time.Duration) *Obs {
	n := len(c.Nodes)
	o := &Obs{c: c, Limit: runtime.NumCPU(),
		Loads: make([]int, n), Evals: make([]int, n), Finished: make([]bool, n), Outcome: make([]error, n),
		Objects: make([]*tgt, n), Started: make([]bool, n), requested: make([]int, n)}
	for _, nd := range c.Nodes {
		if nd.Barrier {
			o.barrierWant++
		}
	}
	s := cosched.New(c.Pol)
	o.Sched = s
	s.Install()
	defer cosched.Uninstall()
	s.Go("main", func() {
		defer func() {
			if p := recover(); p != nil {
				o.mu.Lock()
				o.Panic = p
				o.mu.Unlock()
			}
		}()
		err := runner.Run(o, label(c.Root))
		o.mu.Lock()
		o.RunErr, o.RunDone = err, true
		o.evt("runReturn", 0)
		o.mu.Unlock()
	})
	o.Res = s.Wait(watchdog)
	o.mu.Lock()
	o.account()
	o.mu.Unlock()
	return o
}

// ---- graph facts ---------------------------------------------------------------------------

// Deps returns the distinct dependencies of node i.
func (c *Case) Deps(i int) []int {
	seen := map[int]bool{}
	var out []int
	for _, r := range c.Nodes[i].Reqs {
		for _, d := range r {
			if !seen[d] {
				seen[d] = true
				out = append(out, d)
			}
		}
	}
	sort.Ints(out)
	return out
}

// Reachable returns the nodes reachable from the root (root included) when every
// dependency request is followed.
func (c *Case) Reachable() map[int]bool {
	seen := map[int]bool{}
	var walk func(i int)
	walk = func(i int) {
		if seen[i] || i >= len(c.Nodes) {
			return
		}
		seen[i] = true
		if c.Nodes[i].Unknown {
			return
		}
		for _, d := range c.Deps(i) {
			walk(d)
		}
	}
	walk(c.Root)
	return seen
}

// HasCycle reports whether the sub-graph reachable from the root has a cycle.
func (c *Case) HasCycle() bool {
	color := map[int]int{}
	var visit func(i int) bool
	visit = func(i int) bool {
		if i >= len(c.Nodes) {
			return false
		}
		switch color[i] {
		case 1:
			return true
		case 2:
			return false
		}
		color[i] = 1
		if !c.Nodes[i].Unknown {
			for _, d := range c.Deps(i) {
				if visit(d) {
					return true
				}
			}
		}
		color[i] = 2
		return false
	}
	return visit(c.Root)
}

// Depth returns the longest dependency chain from the root (acyclic graphs).
func (c *Case) Depth() int {
	memo := map[int]int{}
	var d func(i int) int
	d = func(i int) int {
		if v, ok := memo[i]; ok {
			return v
		}
		memo[i] = 0
		best := 0
		if i < len(c.Nodes) && !c.Nodes[i].Unknown {
			for _, x := range c.Deps(i) {
				if v := d(x) + 1; v > best {
					best = v
				}
			}
		}
		memo[i] = best
		return best
	}
	return d(c.Root)
}

// Paths estimates the number of root-to-leaf paths (cost of the runner's cycle check).
func (c *Case) Paths() float64 {
	memo := map[int]float64{}
	var p func(i int) float64
	p = func(i int) float64 {
		if v, ok := memo[i]; ok {
			return v
		}
		memo[i] = 1
		total := 0.0
		if i < len(c.Nodes) {
			for _, x := range c.Deps(i) {
				total += p(x)
			}
		}
		if total == 0 {
			total = 1
		}
		memo[i] = total
		return total
	}
	return p(c.Root)
}

// ---- generators ------------------------------------------------------------------------------

// GenPolicy draws a schedule.
func GenPolicy(t *rapid.T, jitterShare int) cosched.Policy {
	m := rapid.IntRange(0, 9).Draw(t, "polmode")
	switch {
	case m < jitterShare:
		n := rapid.IntRange(4, 24).Draw(t, "ndelays")
		d := make([]int, n)
		for i := range d {
			d[i] = rapid.SampledFrom([]int{0, 1, 0, 2, 3, 1, 8, 20, 4}).Draw(t, "delay")
		}
		return cosched.Policy{Mode: "jitter", Delays: d}
	case m == 9:
		return GenPCT(t, 160)
	case m < jitterShare+3:
		k := rapid.IntRange(0, 3).Draw(t, "npreempt")
		p := make([]int, k)
		for i := range p {
			p[i] = rapid.IntRange(1, 120).Draw(t, "pstep")
		}
		mode := "preempt"
		if k > 0 && rapid.IntRange(0, 2).Draw(t, "starve") == 2 {
			mode = "starve" // the preempted goroutines stall until nothing else can run
		}
		return cosched.Policy{Mode: mode, Preempt: p, Choices: rapid.SliceOfN(rapid.IntRange(0, 7), 1, 12).Draw(t, "choices")}
	default:
		return cosched.Policy{Mode: "random", Choices: rapid.SliceOfN(rapid.IntRange(0, 7), 4, 48).Draw(t, "choices")}
	}
}

// GenPCT draws a priority schedule: random distinct-ish priorities per goroutine and 0-2 points (among the
// first maxStep scheduling points) at which the running goroutine drops below all others.
func GenPCT(t *rapid.T, maxStep int) cosched.Policy {
	prio := make([]int, 12)
	for i := range prio {
		prio[i] = rapid.IntRange(1, 99).Draw(t, "prio")
	}
	k := rapid.SampledFrom([]int{1, 0, 2, 1}).Draw(t, "nchange")
	ch := make([]int, k)
	for i := range ch {
		ch[i] = rapid.IntRange(1, maxStep).Draw(t, "change")
	}
	return cosched.Policy{Mode: "pct", Prio: prio, Preempt: ch, FairAge: 1000}
}

// GenDAG draws an acyclic graph (edges go from lower to higher index; root is node 0).
func GenDAG(t *rapid.T, maxNodes int, wide bool) []Node {
	n := rapid.IntRange(2, maxNodes).Draw(t, "n")
	nodes := make([]Node, n)
	for i := 0; i < n-1; i++ {
		var deps []int
		if wide && i == 0 {
			// fan: the root asks for most of the other nodes
			for d := 1; d < n; d++ {
				if rapid.IntRange(0, 4).Draw(t, "fan") != 4 {
					deps = append(deps, d)
				}
			}
		} else {
			k := rapid.SampledFrom([]int{1, 2, 0, 2, 3, 1}).Draw(t, "ndeps")
			for j := 0; j < k; j++ {
				deps = append(deps, rapid.IntRange(i+1, n-1).Draw(t, "dep"))
			}
		}
		if len(deps) == 0 {
			continue
		}
		if len(deps) >= 2 && rapid.IntRange(0, 3).Draw(t, "split") == 3 {
			h := len(deps) / 2
			nodes[i].Reqs = [][]int{deps[:h], deps[h:]}
		} else {
			nodes[i].Reqs = [][]int{deps}
		}
	}
	for i := range nodes {
		switch rapid.IntRange(0, 11).Draw(t, "kind") {
		case 10:
			nodes[i].Fail = true
		case 11:
			if i != 0 {
				nodes[i].Unknown = true
				nodes[i].Reqs = nil
			}
		}
		nodes[i].Yields = rapid.SampledFrom([]int{0, 1, 0, 2, 3}).Draw(t, "yields")
	}
	return nodes
}

// GenDigraph draws an arbitrary directed graph (self-loops, cycles, overlapping cycles);
// every node issues at most one dependency request, as dawn's targets do.
func GenDigraph(t *rapid.T, maxNodes int) []Node {
	n := rapid.IntRange(1, maxNodes).Draw(t, "n")
	nodes := make([]Node, n)
	for i := range nodes {
		k := rapid.SampledFrom([]int{1, 2, 0, 1, 3, 2}).Draw(t, "ndeps")
		var deps []int
		for j := 0; j < k; j++ {
			deps = append(deps, rapid.IntRange(0, n-1).Draw(t, "dep"))
		}
		if len(deps) > 0 {
			nodes[i].Reqs = [][]int{deps}
		}
		nodes[i].Yields = rapid.SampledFrom([]int{0, 1, 0, 2}).Draw(t, "yields")
	}
	return nodes
}
