// Package starval generates Starlark values as plain data (JSON-able descriptors), builds
// real starlark.Values from them (including shared and self-referential containers and
// host objects), and compares values up to structural isomorphism including aliasing.
package starval

import (
	"bytes"
	"fmt"
	"math"
	"math/big"
	"strconv"

	"github.com/pgavlin/dawn/pickle"
	"go.starlark.net/starlark"
	"pgregory.net/rapid"
)

// V is a plain-data value descriptor.
type V struct {
	K string `json:"k"`           // none bool int float str bytes tuple list dict set host ref
	I string `json:"i,omitempty"` // int: decimal; float: bits in decimal; bool: "1"/"0"
	S []byte `json:"s,omitempty"` // str/bytes: literal content (repeated cyclically to length N if N>0); host: name
	N int    `json:"n,omitempty"` // str/bytes: total length when > len(S)
	E []V    `json:"e,omitempty"` // elements; dict: alternating key, value; host: one payload
	// Filler elements (ints Base, Base+1, ...) placed before and after E; dict: int -> int.
	FB   int `json:"fb,omitempty"`
	FA   int `json:"fa,omitempty"`
	Base int `json:"base,omitempty"`
	Ref  int `json:"ref,omitempty"` // ref: index into the containers created so far
}

// Host is a host object pickled through a Pickler: ("verif", Name, (Payload,)).
type Host struct {
	Name    string
	Payload starlark.Value
}

func (h *Host) String() string        { return "host(" + h.Name + ")" }
func (h *Host) Type() string          { return "verifhost" }
func (h *Host) Freeze()               {}
func (h *Host) Truth() starlark.Bool  { return starlark.True }
func (h *Host) Hash() (uint32, error) { return 0, fmt.Errorf("unhashable: verifhost") }

// Pickler / Unpickler for Host objects.
var Pickler = pickle.PicklerFunc(func(x starlark.Value) (string, string, starlark.Tuple, error) {
	if h, ok := x.(*Host); ok {
		return "verif", h.Name, starlark.Tuple{h.Payload}, nil
	}
	return "", "", nil, pickle.ErrCannotPickle
})

var Unpickler = pickle.UnpicklerFunc(func(module, name string, args starlark.Tuple) (starlark.Value, error) {
	if module != "verif" || len(args) != 1 {
		return nil, fmt.Errorf("cannot unpickle %s.%s/%d", module, name, len(args))
	}
	return &Host{Name: name, Payload: args[0]}, nil
})

type open struct {
	v    starlark.Value
	host bool
}

type builder struct {
	tuples []starlark.Tuple // tuples in creation order (for slices that share their storage)
	pool   []starlark.Value // mutable containers / hosts in creation order
	stack []open           // currently open (ancestors)
	// statistics
	Shared, Cyclic, ViaTuple int
}

// Stats of a built value, for classification.
type Stats struct {
	Shared, Cyclic int
	Nodes          int
}

// Build constructs the value of a descriptor. Refs to ancestors across a host boundary are
// not representable by a NEWOBJ-style pickler (no BUILD opcode) and are replaced by None.
func Build(d V) (starlark.Value, Stats) {
	b := &builder{}
	v := b.build(d, false)
	return v, Stats{Shared: b.Shared, Cyclic: b.Cyclic, Nodes: len(b.pool)}
}

func contentBytes(d V) []byte {
	if d.N <= len(d.S) {
		return d.S
	}
	out := make([]byte, d.N)
	if len(d.S) == 0 {
		for i := range out {
			out[i] = 'x'
		}
		return out
	}
	for i := range out {
		out[i] = d.S[i%len(d.S)]
	}
	return out
}

func (b *builder) build(d V, hashable bool) starlark.Value {
	switch d.K {
	case "none", "":
		return starlark.None
	case "bool":
		return starlark.Bool(d.I == "1")
	case "int":
		var z big.Int
		if _, ok := z.SetString(d.I, 10); !ok {
			return starlark.MakeInt(0)
		}
		return starlark.MakeBigInt(&z)
	case "float":
		bits, _ := strconv.ParseUint(d.I, 10, 64)
		return starlark.Float(math.Float64frombits(bits))
	case "str":
		return starlark.String(contentBytes(d))
	case "bytes":
		return starlark.Bytes(contentBytes(d))
	case "tuple":
		t := make(starlark.Tuple, 0, len(d.E)+d.FB+d.FA)
		for i := 0; i < d.FB; i++ {
			t = append(t, starlark.MakeInt(d.Base+i))
		}
		for _, e := range d.E {
			t = append(t, b.build(e, hashable))
		}
		for i := 0; i < d.FA; i++ {
			t = append(t, starlark.MakeInt(d.Base+d.FB+i))
		}
		b.tuples = append(b.tuples, t)
		return t
	case "tslice":
		// a slice t[start:end] of an earlier tuple: same storage, as Tuple.Slice returns it
		if len(b.tuples) == 0 {
			return starlark.Tuple{}
		}
		t := b.tuples[((d.Ref%len(b.tuples))+len(b.tuples))%len(b.tuples)]
		start := 0
		if len(t) > 0 {
			start = d.FB % (len(t) + 1)
		}
		end := start + d.N%(len(t)-start+1)
		return t[start:end]
	case "ref":
		if hashable || len(b.pool) == 0 {
			return starlark.None
		}
		target := b.pool[((d.Ref%len(b.pool))+len(b.pool))%len(b.pool)]
		// ancestor?
		for i := len(b.stack) - 1; i >= 0; i-- {
			if b.stack[i].v == target {
				for j := i + 1; j < len(b.stack); j++ {
					if b.stack[j].host {
						return starlark.None // cycle through a host object: not generated
					}
				}
				if b.stack[i].host {
					return starlark.None
				}
				b.Cyclic++
				return target
			}
		}
		b.Shared++
		return target
	}
	if hashable {
		return starlark.None
	}
	switch d.K {
	case "list":
		l := starlark.NewList(nil)
		b.pool = append(b.pool, l)
		b.stack = append(b.stack, open{v: l})
		for i := 0; i < d.FB; i++ {
			l.Append(starlark.MakeInt(d.Base + i))
		}
		for _, e := range d.E {
			l.Append(b.build(e, false))
		}
		for i := 0; i < d.FA; i++ {
			l.Append(starlark.MakeInt(d.Base + d.FB + i))
		}
		b.stack = b.stack[:len(b.stack)-1]
		return l
	case "set":
		s := starlark.NewSet(0)
		b.pool = append(b.pool, s)
		b.stack = append(b.stack, open{v: s})
		for i := 0; i < d.FB; i++ {
			s.Insert(starlark.MakeInt(d.Base + i))
		}
		for _, e := range d.E {
			s.Insert(b.build(e, true))
		}
		for i := 0; i < d.FA; i++ {
			s.Insert(starlark.MakeInt(d.Base + d.FB + i))
		}
		b.stack = b.stack[:len(b.stack)-1]
		return s
	case "dict":
		m := starlark.NewDict(0)
		b.pool = append(b.pool, m)
		b.stack = append(b.stack, open{v: m})
		for i := 0; i < d.FB; i++ {
			m.SetKey(starlark.MakeInt(d.Base+i), starlark.MakeInt(i))
		}
		for i := 0; i+1 < len(d.E); i += 2 {
			k := b.build(d.E[i], true)
			v := b.build(d.E[i+1], false)
			m.SetKey(k, v)
		}
		for i := 0; i < d.FA; i++ {
			m.SetKey(starlark.MakeInt(d.Base+d.FB+i), starlark.MakeInt(-i))
		}
		b.stack = b.stack[:len(b.stack)-1]
		return m
	case "host":
		h := &Host{Name: string(d.S)}
		b.pool = append(b.pool, h)
		b.stack = append(b.stack, open{v: h, host: true})
		if len(d.E) > 0 {
			h.Payload = b.build(d.E[0], false)
		} else {
			h.Payload = starlark.None
		}
		b.stack = b.stack[:len(b.stack)-1]
		return h
	}
	return starlark.None
}

// ---------------------------------------------------------------------------------------
// Isomorphism

type isoState struct {
	ab map[any]any
	ba map[any]any
}

// Iso reports whether a and b are identical in type, structure, contents and sharing.
// The returned string describes the first difference.
func Iso(a, b starlark.Value) (bool, string) {
	st := &isoState{ab: map[any]any{}, ba: map[any]any{}}
	return st.iso(a, b, "$", 0)
}

func (st *isoState) bind(a, b any, path string) (done bool, ok bool, why string) {
	if x, seen := st.ab[a]; seen {
		if x != b {
			return true, false, path + ": sharing differs (left object already paired with another right object)"
		}
		return true, true, ""
	}
	if _, seen := st.ba[b]; seen {
		return true, false, path + ": sharing differs (right object already paired with another left object)"
	}
	st.ab[a] = b
	st.ba[b] = a
	return false, true, ""
}

func (st *isoState) iso(a, b starlark.Value, path string, depth int) (bool, string) {
	if a == nil || b == nil {
		return false, path + ": nil value"
	}
	if depth > 100000 {
		return false, path + ": too deep"
	}
	switch x := a.(type) {
	case starlark.NoneType:
		if _, ok := b.(starlark.NoneType); !ok {
			return false, fmt.Sprintf("%s: None vs %s", path, b.Type())
		}
		return true, ""
	case starlark.Bool:
		y, ok := b.(starlark.Bool)
		if !ok || x != y {
			return false, fmt.Sprintf("%s: %v vs %v", path, a, b)
		}
		return true, ""
	case starlark.Int:
		y, ok := b.(starlark.Int)
		if !ok || x.BigInt().Cmp(y.BigInt()) != 0 {
			return false, fmt.Sprintf("%s: int %v vs %s %v", path, a, b.Type(), trunc(b.String()))
		}
		return true, ""
	case starlark.Float:
		y, ok := b.(starlark.Float)
		if !ok || math.Float64bits(float64(x)) != math.Float64bits(float64(y)) {
			return false, fmt.Sprintf("%s: float %v vs %s %v", path, a, b.Type(), trunc(b.String()))
		}
		return true, ""
	case starlark.String:
		y, ok := b.(starlark.String)
		if !ok || x != y {
			return false, fmt.Sprintf("%s: string(len %d) vs %s(len %d)", path, len(x), b.Type(), lenOf(b))
		}
		return true, ""
	case starlark.Bytes:
		y, ok := b.(starlark.Bytes)
		if !ok || x != y {
			return false, fmt.Sprintf("%s: bytes(len %d) vs %s(len %d)", path, len(x), b.Type(), lenOf(b))
		}
		return true, ""
	case starlark.Tuple:
		y, ok := b.(starlark.Tuple)
		if !ok {
			return false, fmt.Sprintf("%s: tuple vs %s", path, b.Type())
		}
		if len(x) != len(y) {
			return false, fmt.Sprintf("%s: tuple len %d vs %d", path, len(x), len(y))
		}
		for i := range x {
			if ok, why := st.iso(x[i], y[i], fmt.Sprintf("%s[%d]", path, i), depth+1); !ok {
				return false, why
			}
		}
		return true, ""
	case *starlark.List:
		y, ok := b.(*starlark.List)
		if !ok {
			return false, fmt.Sprintf("%s: list vs %s", path, b.Type())
		}
		if done, ok, why := st.bind(x, y, path); done {
			return ok, why
		}
		if x.Len() != y.Len() {
			return false, fmt.Sprintf("%s: list len %d vs %d", path, x.Len(), y.Len())
		}
		for i := 0; i < x.Len(); i++ {
			if ok, why := st.iso(x.Index(i), y.Index(i), fmt.Sprintf("%s[%d]", path, i), depth+1); !ok {
				return false, why
			}
		}
		return true, ""
	case *starlark.Dict:
		y, ok := b.(*starlark.Dict)
		if !ok {
			return false, fmt.Sprintf("%s: dict vs %s", path, b.Type())
		}
		if done, ok, why := st.bind(x, y, path); done {
			return ok, why
		}
		xi, yi := x.Items(), y.Items()
		if len(xi) != len(yi) {
			return false, fmt.Sprintf("%s: dict len %d vs %d", path, len(xi), len(yi))
		}
		for i := range xi {
			if ok, why := st.iso(xi[i][0], yi[i][0], fmt.Sprintf("%s.key#%d", path, i), depth+1); !ok {
				return false, why
			}
			if ok, why := st.iso(xi[i][1], yi[i][1], fmt.Sprintf("%s.val#%d", path, i), depth+1); !ok {
				return false, why
			}
		}
		return true, ""
	case *starlark.Set:
		y, ok := b.(*starlark.Set)
		if !ok {
			return false, fmt.Sprintf("%s: set vs %s", path, b.Type())
		}
		if done, ok, why := st.bind(x, y, path); done {
			return ok, why
		}
		xe, ye := x.Elems(), y.Elems()
		if len(xe) != len(ye) {
			return false, fmt.Sprintf("%s: set len %d vs %d", path, len(xe), len(ye))
		}
		for i := range xe {
			if ok, why := st.iso(xe[i], ye[i], fmt.Sprintf("%s.elem#%d", path, i), depth+1); !ok {
				return false, why
			}
		}
		return true, ""
	case *Host:
		y, ok := b.(*Host)
		if !ok {
			return false, fmt.Sprintf("%s: host vs %s", path, b.Type())
		}
		if done, ok, why := st.bind(x, y, path); done {
			return ok, why
		}
		if x.Name != y.Name {
			return false, fmt.Sprintf("%s: host name %q vs %q", path, x.Name, y.Name)
		}
		return st.iso(x.Payload, y.Payload, path+".payload", depth+1)
	}
	return false, fmt.Sprintf("%s: unsupported type %T", path, a)
}

func lenOf(v starlark.Value) int {
	if s, ok := v.(interface{ Len() int }); ok {
		return s.Len()
	}
	return -1
}

func trunc(s string) string {
	if len(s) > 60 {
		return s[:60] + "..."
	}
	return s
}

// WellFormed walks a decoded value (cycle-safe) and reports nil elements or panicking
// String/Type methods.
type tupleKey struct {
	p *starlark.Value
	n int
}

func WellFormed(v starlark.Value) (ok bool, why string) {
	defer func() {
		if r := recover(); r != nil {
			ok, why = false, fmt.Sprintf("panic while walking value: %v", r)
		}
	}()
	seen := map[any]bool{}
	var walk func(v starlark.Value, depth int) string
	walk = func(v starlark.Value, depth int) string {
		if v == nil {
			return "nil value"
		}
		if depth > 200000 {
			return ""
		}
		_ = v.Type()
		switch x := v.(type) {
		case starlark.Tuple:
			// tuples shared through the memo (a doubling DAG of tuples) are visited once per storage, not per path
			if len(x) > 0 {
				k := tupleKey{&x[0], len(x)}
				if seen[k] {
					return ""
				}
				seen[k] = true
			}
			for _, e := range x {
				if s := walk(e, depth+1); s != "" {
					return s
				}
			}
		case *starlark.List:
			if seen[x] {
				return ""
			}
			seen[x] = true
			for i := 0; i < x.Len(); i++ {
				if s := walk(x.Index(i), depth+1); s != "" {
					return s
				}
			}
		case *starlark.Dict:
			if seen[x] {
				return ""
			}
			seen[x] = true
			for _, kv := range x.Items() {
				if s := walk(kv[0], depth+1); s != "" {
					return s
				}
				if s := walk(kv[1], depth+1); s != "" {
					return s
				}
			}
		case *starlark.Set:
			if seen[x] {
				return ""
			}
			seen[x] = true
			for _, e := range x.Elems() {
				if s := walk(e, depth+1); s != "" {
					return s
				}
			}
		case *Host:
			if seen[x] {
				return ""
			}
			seen[x] = true
			return walk(x.Payload, depth+1)
		}
		return ""
	}
	if s := walk(v, 0); s != "" {
		return false, s
	}
	return true, ""
}

// Encode / Decode helpers with the Host pickler.
func Encode(v starlark.Value) ([]byte, error) {
	var buf bytes.Buffer
	err := pickle.NewEncoder(&buf, Pickler).Encode(v)
	return buf.Bytes(), err
}

func Decode(b []byte) (starlark.Value, error) {
	return pickle.NewDecoder(bytes.NewReader(b), Unpickler).Decode()
}

// ---------------------------------------------------------------------------------------
// Generators

var boundaryInts = []string{
	"0", "1", "-1", "2", "127", "128", "255", "256", "257", "-255", "-256", "-257", "300", "511", "512", "1000", "4095", "4096",
	"32767", "32768", "65279", "65280", "65534", "65535", "65536", "65537", "65580", "-65535", "-65536", "16777215", "16777216",
	"2147483647", "2147483648", "-2147483648", "-2147483649", "4294967295", "4294967296",
	"9223372036854775807", "9223372036854775808", "-9223372036854775808", "-9223372036854775809",
	"18446744073709551615", "18446744073709551616", "1000000000000000000000000000000", "-1000000000000000000000000000000",
}

var boundaryFloatBits = []uint64{
	0, 1 << 63, 0x3ff0000000000000, 0xbff0000000000000, 0x7ff0000000000000, 0xfff0000000000000,
	0x7ff8000000000001, 0x7ff8000000000000, 0xfff8000000000000, 1, 0x000fffffffffffff, 0x0010000000000000,
	0x7fefffffffffffff, 0x4070000000000000, 0x40f0000000000000,
}

var boundaryLens = []int{0, 1, 2, 254, 255, 256, 257, 65535, 65536, 65537}

// SizeClass names the container size class for classification.
func SizeClass(n int) string {
	switch {
	case n <= 4:
		return strconv.Itoa(n)
	case n <= 20:
		return "5-20"
	case n < 999:
		return "21-998"
	case n <= 1000:
		return "999-1000"
	case n == 1001:
		return "1001"
	case n <= 2000:
		return "1002-2000"
	case n <= 2001:
		return "2001"
	default:
		return ">2001"
	}
}

// GenOpts tunes the generator.
type GenOpts struct {
	MaxDepth  int
	BigProb   int  // percent chance that a container is given a large size class
	Hosts     bool // generate host objects
	Refs      bool // generate aliasing / cycles
	BigStrLen bool // allow 65535+ strings
}

func genInt(t *rapid.T) V {
	switch rapid.IntRange(0, 9).Draw(t, "intclass") {
	case 0, 1, 2:
		return V{K: "int", I: rapid.SampledFrom(boundaryInts).Draw(t, "bint")}
	case 3, 4, 5:
		return V{K: "int", I: strconv.Itoa(rapid.IntRange(256, 65535).Draw(t, "u16"))}
	case 6:
		return V{K: "int", I: strconv.FormatInt(rapid.Int64().Draw(t, "i64"), 10)}
	case 7:
		return V{K: "int", I: strconv.Itoa(rapid.IntRange(-70000, 70000).Draw(t, "small"))}
	case 8:
		return V{K: "int", I: strconv.FormatInt(int64(rapid.Int32().Draw(t, "i32")), 10)}
	default:
		z := new(big.Int).SetUint64(rapid.Uint64().Draw(t, "hi"))
		z.Lsh(z, uint(rapid.IntRange(0, 80).Draw(t, "sh")))
		if rapid.Bool().Draw(t, "neg") {
			z.Neg(z)
		}
		return V{K: "int", I: z.String()}
	}
}

func genFloat(t *rapid.T) V {
	if rapid.Bool().Draw(t, "fb") {
		return V{K: "float", I: strconv.FormatUint(rapid.SampledFrom(boundaryFloatBits).Draw(t, "fbits"), 10)}
	}
	return V{K: "float", I: strconv.FormatUint(rapid.Uint64().Draw(t, "bits"), 10)}
}

var codecWords = []string{"verif", "A", "B", "Thing", "verif.A", "verif.B", "verif.Thing", "verif A", "verif\nA", "verif:Thing", "verif/B", "verifA",
	"dawn", "dawn.Builtin", "dawn.Function", "dawn.Target", "builtins", "__main__", "N.", ".", "\x80\x02"}

func genStr(t *rapid.T, kind string, o GenOpts) V {
	switch rapid.IntRange(0, 10).Draw(t, "strclass") {
	case 10:
		// the codec's own vocabulary: module and class names of the host picklers (alone and joined the ways
		// a key might join them), opcode letters
		return V{K: kind, S: []byte(rapid.SampledFrom(codecWords).Draw(t, "word"))}
	case 0, 1, 2, 3, 4:
		return V{K: kind, S: rapid.SliceOfN(rapid.Byte(), 0, 12).Draw(t, "lit")}
	case 5, 6:
		s := []byte(rapid.StringN(0, 8, 24).Draw(t, "ustr"))
		return V{K: kind, S: s}
	default:
		n := rapid.SampledFrom(boundaryLens).Draw(t, "blen")
		if !o.BigStrLen && n > 300 {
			n = 256
		}
		if o.BigStrLen && rapid.IntRange(0, 60).Draw(t, "mib") == 9 {
			// around and past one and two MiB (buffers that are filled piecewise)
			n = rapid.SampledFrom([]int{1048575, 1048576, 1048577, 1500001, 2097153, 3000000}).Draw(t, "miblen")
		}
		return V{K: kind, S: rapid.SliceOfN(rapid.Byte(), 1, 5).Draw(t, "pat"), N: n}
	}
}

// GenHashable draws a hashable value descriptor (for dict keys and set elements).
func GenHashable(t *rapid.T, depth int, o GenOpts) V {
	max := 6
	if depth >= 2 {
		max = 5
	}
	switch rapid.IntRange(0, max).Draw(t, "hk") {
	case 0:
		return genInt(t)
	case 1:
		return genStr(t, "str", o)
	case 2:
		return genStr(t, "bytes", o)
	case 3:
		return genFloat(t)
	case 4:
		return V{K: "bool", I: strconv.Itoa(rapid.IntRange(0, 1).Draw(t, "b"))}
	case 5:
		return V{K: "none"}
	default:
		n := rapid.IntRange(0, 4).Draw(t, "htn")
		e := make([]V, n)
		for i := range e {
			e[i] = GenHashable(t, depth+1, o)
		}
		return V{K: "tuple", E: e}
	}
}

var bigSizes = []int{999, 1000, 1001, 1002, 2000, 2001, 2002, 3000}

func genSizes(t *rapid.T, o GenOpts, big *int) (n, fb, fa int) {
	n = rapid.SampledFrom([]int{0, 1, 1, 2, 2, 3, 3, 4, 4, 5, 6, 9}).Draw(t, "n")
	if o.BigProb > 0 && *big > 0 && rapid.IntRange(0, 99).Draw(t, "bigp") < o.BigProb {
		*big--
		total := rapid.SampledFrom(bigSizes).Draw(t, "bigsize")
		if n > 3 {
			n = 3
		}
		rest := total - n
		if rest < 0 {
			rest = 0
		}
		switch rapid.IntRange(0, 2).Draw(t, "pos") {
		case 0:
			fb, fa = 0, rest
		case 1:
			fb, fa = rest, 0
		default:
			fb = rapid.SampledFrom([]int{rest / 2, 999, 1000, 1001}).Draw(t, "split")
			if fb > rest {
				fb = rest
			}
			fa = rest - fb
		}
	}
	return
}

// Gen draws a value descriptor.
func Gen(t *rapid.T, o GenOpts) V {
	big := 2
	return gen(t, 0, o, &big)
}

func gen(t *rapid.T, depth int, o GenOpts, big *int) V {
	leafOnly := depth >= o.MaxDepth
	k := rapid.IntRange(0, 15).Draw(t, "kind")
	if depth == 0 && !leafOnly {
		// roots are mostly containers; scalars are exercised as elements
		k = rapid.SampledFrom([]int{0, 2, 3, 4, 7, 8, 9, 9, 10, 10, 11, 11, 12, 13, 13, 14}).Draw(t, "rootkind")
	}
	if leafOnly && k >= 7 {
		k = k % 7
	}
	switch k {
	case 0, 1:
		return genInt(t)
	case 2:
		return genStr(t, "str", o)
	case 3:
		return genStr(t, "bytes", o)
	case 4:
		return genFloat(t)
	case 5:
		return V{K: "bool", I: strconv.Itoa(rapid.IntRange(0, 1).Draw(t, "b"))}
	case 6:
		return V{K: "none"}
	case 7, 8:
		n, fb, fa := genSizes(t, o, big)
		e := make([]V, n)
		for i := range e {
			e[i] = gen(t, depth+1, o, big)
		}
		return V{K: "tuple", E: e, FB: fb, FA: fa, Base: 5000}
	case 9, 10:
		n, fb, fa := genSizes(t, o, big)
		e := make([]V, n)
		for i := range e {
			e[i] = gen(t, depth+1, o, big)
		}
		return V{K: "list", E: e, FB: fb, FA: fa, Base: 7000}
	case 11, 12:
		n, fb, fa := genSizes(t, o, big)
		e := make([]V, 0, 2*n)
		for i := 0; i < n; i++ {
			e = append(e, GenHashable(t, depth+1, o), gen(t, depth+1, o, big))
		}
		return V{K: "dict", E: e, FB: fb, FA: fa, Base: 100000}
	case 13:
		n, fb, fa := genSizes(t, o, big)
		e := make([]V, n)
		for i := range e {
			e[i] = GenHashable(t, depth+1, o)
		}
		return V{K: "set", E: e, FB: fb, FA: fa, Base: 200000}
	case 14:
		if o.Hosts {
			return V{K: "host", S: []byte(rapid.SampledFrom([]string{"A", "B", "Thing"}).Draw(t, "hname")), E: []V{gen(t, depth+1, o, big)}}
		}
		return genInt(t)
	default:
		if o.Refs {
			if rapid.IntRange(0, 2).Draw(t, "tslice") == 2 {
				return V{K: "tslice", Ref: rapid.IntRange(0, 6).Draw(t, "tref"), FB: rapid.SampledFrom([]int{0, 0, 1, 2}).Draw(t, "tstart"), N: rapid.IntRange(0, 9).Draw(t, "tlen")}
			}
			return V{K: "ref", Ref: rapid.IntRange(0, 12).Draw(t, "ref")}
		}
		return genStr(t, "str", o)
	}
}

// CountLeaves returns the number of scalar leaves of a descriptor.
func CountLeaves(d V) int {
	switch d.K {
	case "tuple", "list", "dict", "set", "host":
		n := 0
		for _, e := range d.E {
			n += CountLeaves(e)
		}
		return n
	case "ref", "tslice":
		return 0
	}
	return 1
}

// ReplaceLeaf returns a copy of d whose idx-th scalar leaf (pre-order) is replaced by nv.
func ReplaceLeaf(d V, idx *int, nv V) V {
	switch d.K {
	case "tuple", "list", "dict", "set", "host":
		out := d
		out.E = make([]V, len(d.E))
		for i, e := range d.E {
			out.E[i] = ReplaceLeaf(e, idx, nv)
		}
		return out
	case "ref", "tslice":
		return d
	}
	if *idx == 0 {
		*idx = -1
		return nv
	}
	if *idx > 0 {
		*idx--
	}
	return d
}

// HasKind reports whether the descriptor contains a node of one of the kinds.
func HasKind(d V, kinds ...string) bool {
	for _, k := range kinds {
		if d.K == k {
			return true
		}
	}
	for _, e := range d.E {
		if HasKind(e, kinds...) {
			return true
		}
	}
	return false
}

// MaxSize returns the largest container size in the descriptor.
func MaxSize(d V) int {
	m := 0
	switch d.K {
	case "tuple", "list", "set":
		m = len(d.E) + d.FB + d.FA
	case "dict":
		m = len(d.E)/2 + d.FB + d.FA
	}
	for _, e := range d.E {
		if s := MaxSize(e); s > m {
			m = s
		}
	}
	return m
}
