#!/usr/bin/env python3
"""Regenerates MANIFEST.json from the table below (kept next to the driver so the two stay in step)."""
import json, os, subprocess
HERE = os.path.dirname(os.path.abspath(__file__))

def hook_commits():
    try:
        out = subprocess.run(["git", "-C", "/repo", "log", "--format=%h %s"], capture_output=True, text=True).stdout
    except Exception:
        return []
    return [l.split()[0] for l in out.splitlines() if l.split(" ", 1)[1].startswith("verif:")]

CHECKS = {
 "C01": dict(engine="projsim", level="exploration", section="4 C01", technique="model-based property testing (rapid): generated projects x generated edit/build histories, differential against a from-scratch build of the same tree",
   text="Whole dawn projects (multi-package DAGs, helpers, closures, defaults, globals, flags, source dirs, generated files) and histories of edits interleaved "
        "with sub-target, failing, dry, always, child-process and interrupted builds (the child dies at the n-th hit of a named point in bodies, record writes or the index write) run through the real Load/Run; every body writes a digest of all its inputs, so a "
        "stale target shows as a byte difference against a clean twin build. Also: a dependent of a target that executed in a build executes after it. Edits include integer constants moved by a power of two (2^8 .. 2^64) around the widths of fixed-size encodings; a quarter of the projects use file and directory names with characters that URL escaping, label syntax and shells treat specially. Source edits include new contents that arrive with an old modification time.",
   note="Bodies use only the injected vf builtins and depend only on inputs the property lists; <= 4 packages, <= 8 targets, <= 28 operations per history."),
 "C02": dict(engine="projsim", level="exploration", section="4 C02", technique="metamorphic property testing (rapid): build, apply no-op-class operations, rebuild in a fresh process under a generated package load order; nothing may execute",
   text="Generated projects are built in a child process, changed only by no-op-class operations (touch, same-content rewrite, recreate, comments, blank lines, "
        "docstrings, edits outside the closure in other packages, dry run, GC, index-only load), and rebuilt in another child process with a generated package "
        "load order; no body may run and no TargetEvaluating may be reported in the closure. A second check runs C01-style histories and flags any body that executes in a successful ordinary build although, by the harness' own bookkeeping, none of its inputs changed since its last successful execution and no dependency executed in this build. Histories mix builds on one long-lived reloaded Project (watch mode) with builds from fresh loads and other processes.",
   note="Load order is controlled at package granularity (gates in generated BUILD files); same-file edits of other targets are not claimed as no-ops."),
 "C03": dict(engine="projsim", level="fault_enumeration", section="4 C03", technique="fault injection over generated scenarios (rapid): enumerate the crash points of the faulty build, kill a child process at each, recover in new loads, differential against a from-scratch build",
   text="The faulty build of each generated scenario is first run in counting mode to list every crash-point occurrence (body start/middle/end, record "
        "temp-file create / encode / rename, failure records, load-time refresh, index create / write); each selected (quick: up to 6, thorough: all) point "
        "kills a child process there; afterwards the project must load (index preferred or not) without touching files, interrupted or failed targets must "
        "re-execute, and the recovery and final builds must equal a from-scratch build byte for byte. A failing-body variant is checked the same way. A process that dies in the middle of the in-place write of index.json is modelled by cutting the complete file to k/17 of its bytes (4 cuts in quick, 16 in thorough). A fifth of the faulty builds are the second run of one loaded project whose first run was a dry run; the failing-body variant is also recovered on the same loaded project (run fails, cause removed, same Project runs again).",
   note="Crash = process exit at a Go-level boundary named by a verif-tagged hook; power-loss effects (torn writes, reordered renames) are not modelled."),
 "C04": dict(engine="cosched", level="exploration", section="4 C04", technique="schedule exploration: generated graphs x generated schedules on a cooperative token scheduler (rapid), plus delay-injection runs and -race in thorough",
   text="The real runner.Run executes generated acyclic graphs with recording Targets while a cooperative scheduler that owns every scheduling point of "
        "runner.go takes each decision from a generated choice vector (deterministic, shrinkable, exact deadlock detection); a third of the cases run free "
        "with generated delays; free-running fan-in graphs align 2-8 dependents at a barrier right before they request the same fresh targets. Oracle: once-only load/evaluate, completion before continuation, actual outcomes handed over, Run's result. A project-level check builds generated dawn projects whose dependency labels use every spelling (incl. target://pkg:name) through the real Load/Run and counts body starts and completion events per label. Wide requests: one request of 33-1025 dependencies with failing and unloadable ones early, late or anywhere.",
   note="Interleavings inside windows without a scheduling point are only reached by the delay-injection mode and -race (thorough); graphs <= 14 nodes."),
 "C05": dict(engine="cosched", level="exploration", section="4 C05", technique="schedule exploration (rapid) with exact deadlock/livelock detection, bounded-exhaustive schedules and PCT priority schedules for a catalogue of tiny graphs, limits 1-4 and 16 via CPU affinity",
   text="Generated digraphs (self-loops, overlapping cycles, cycles off the root) run on the real runner under generated fair schedules at parallelism limits "
        "1,2,3,4,16; termination is decided by the scheduler (confirmed all-parked dump = deadlock, >400k scheduling points = livelock), and the cycle "
        "error must appear exactly when the reachable graph is cyclic. A catalogue of 8 tiny graphs is run under every schedule with <=1 (quick) / <=2 "
        "(thorough) preemptions (plain or parking the preempted goroutine) and under generated PCT priority schedules. Graphs may contain dependencies that name nothing (their load fails): the build still terminates and a cyclic error appears only for cyclic graphs.",
   note="Termination is decided on generated graphs and fair schedules only; graphs <= 10 nodes and <= 4096 paths (the runner's cycle walk is not memoised)."),
 "C06": dict(engine="cosched", level="exploration", section="4 C06", technique="schedule exploration (rapid): generated load graphs x generated schedules on the cooperative scheduler over the real dawn.Load, exact deadlock detection",
   text="Generated projects (packages, shared helper modules, chains, diamonds, self-loads, 2..n-cycles) are loaded by the real dawn.Load while the cooperative "
        "scheduler owns the scheduling points of package and module loading; a third of the cases run free with generated delays. Oracle: Load returns, each "
        "module executed once, acyclic => expected targets and flags, cyclic => cyclic-dependency error. A catalogue of 8 load graphs runs under every run-until-block schedule with <=1 preemption (<=2 for the long rings; all in thorough), an aligned free-running stress releases the mutual loads from a barrier, and reload histories hold every Reload of one long-lived Project to the oracle of a fresh load. Load graphs may name module files that do not exist (also in reload histories): Load returns an error, it never hangs.",
   note="Starlark execution between load statements is atomic under the scheduler; <= 4 packages and <= 5 helper modules."),
 "C07": dict(engine="starval", level="exploration", section="4 C07", technique="property-based testing (rapid): round-trip / isomorphism oracle over generated values",
   text="Generated-value search (rapid, shrinking) against a structural-isomorphism oracle that also compares types and aliasing, plus a pair oracle "
        "(one-leaf mutations must not decode equal) and encode determinism/fixpoint. Boundary classes (int widths, string lengths, batch sizes at every "
        "position, sharing, cycles, host objects) are forced by the generator and counted in the evidence; a pickler that allocates its arguments per call under forced garbage collections checks that sharing is by value identity, not by address. Strings include the codec's own vocabulary (module and class names of the host picklers, alone and joined). One boundary-length string in sixty is 1-3 MB long.",
   note="Trusts the harness' Iso relation and starlark.Equal; sizes <= 3002 elements, strings <= 65537 bytes; cycles through a host object's argument tuple are outside the generator (C08 covers recursion)."),
 "C08": dict(engine="projsim", level="exploration", section="4 C08", technique="grammar-based property testing (rapid) in child processes: terminates-without-crash oracle, determinism across processes, metamorphic change detection",
   text="BUILD files generated from a grammar of value and function kinds (recursion, mutual recursion, closures, defaults, nested defs, big and cyclic data, "
        "predeclared values) are built in fresh child processes with a 64 MB stack cap: the first build must exit normally without an environment error, a "
        "second process must evaluate nothing (also on a copy of the project at another path), and a third must re-evaluate the target exactly when a referenced item was mutated (constants, code, defaults, captured values, parameter lists, rebound builtins). Item kinds include globals bound to methods of values (mutation: another receiver) and values of other kinds (ranges, the views returned by string and bytes methods; mutation: another value, or the same elements as another kind), the same definitions in another order with their uses swapped too (globals, captured variables, universals), a builtin and the string that spells its name, and integer alias pairs (v and v - 2^64). Value pairs include values of different types that the language calls equal (2 / 2.0, [1, 2] / [1.0, 2]).",
   note="Programs are bounded by the grammar (<= ~60 lines); the os/sh/json modules of the CLI are not injected in the child processes."),
 "C09": dict(engine="cosched", level="exploration", section="4 C09", technique="schedule exploration (rapid) over configurations: limits 1,2,3,4,16 via CPU affinity, invariant on a harness counter of executing targets",
   text="Shards run under taskset with 1,2,3,4 and 16 CPUs (the runner's limit is runtime.NumCPU); graphs are biased to fans wider than the limit. The harness "
        "counter of executing targets must never exceed the limit; leaked or held slots show as a confirmed deadlock, extra releases as counter > limit.",
   note="The counter is a lower bound of the slots held (incremented after a slot is taken, decremented before it is returned); limits other than 1,2,3,4,16 are not run."),
 "C20": dict(engine="cosched", level="exploration", section="4 C20", technique="schedule exploration (rapid): generated caller/key/outcome patterns x generated schedules on the cooperative scheduler over the real Cache.once",
   text="A real Cache value (obtained through Project.REPLEnv) is called by 2-6 goroutines over 1-3 keys with generated failing/succeeding callables while the "
        "cooperative scheduler owns once's scheduling points (or delays are injected). Oracle: one successful computation per key, identical value for all "
        "callers, failed calls cache nothing, no deadlock. Caches are pre-filled with 0-1024 other keys (around powers of two) before the callers start.",
   note="Windows without a scheduling point are reached only by delay injection and -race (thorough)."),
 "C10": dict(engine="mvssim", level="exploration", section="4 C10", technique="property-based testing (rapid): differential against a reference MVS (reachability + max) plus metamorphic cache/order variations",
   text="Generated universes (diamonds, cycles, several majors, pre-releases) and root requirement sets are resolved by mvs.BuildList and by an independent "
        "BFS/maximum reference; the answer must be identical with warm memo, warm disk cache, cold cache and all requirement names renamed, and after a transient fetch failure a list returned by the same resolver must still be the reference list. The harness spells project paths itself (nothing from internal/project), majors include v10, v12, v20 and v100. In a fifth of the universes two projects differ in the letter case of their directory only.",
   note="Universes are served by a harness vcs.Repository through a verif-tagged dialer adapter (internal/mvs/export_verif.go); at most 7 projects / 23 tagged versions."),
 "C11": dict(engine="mvssim", level="exploration", section="4 C11", technique="property-based testing (rapid): stateful operation sequences checked against relations over reference build lists",
   text="Sequences of Tidy / UpgradeAll / Get(query) are applied as the CLI does; each step is judged by the statement's relations (build list preserved, "
        "resolved version reached, nothing lowered, downgrade bound, names preserved, no requirement lost to a name collision, idempotence) using an "
        "independent query resolver and the reference MVS; a watchdog turns a non-returning operation into a violation. A commit may carry two version tags of one project; a ref resolves to the highest tag of its commit.",
   note="Prefix and branch queries are only checked with the generic relations (the statement does not define what they resolve to); an error is accepted for a downgrade the reference shows to be unsatisfiable."),
 "C12": dict(engine="pure", level="exploration", section="4 C12", technique="bounded exhaustive enumeration + property-based testing (rapid): print/parse round-trip, canonical grouping, confinement oracle",
   text="All strings over {a,b,:,/,.,@} up to length 6 (quick) / 7 (thorough) and all paths over {a,.,/} up to length 7/8 are enumerated completely; "
        "rapid adds longer strings over a wider alphabet. Oracles: print/re-parse identity, one label per printed form, RelativeTo stability, and resolved "
        "source/generated paths inside the root (pure and end-to-end through dawn.Load). After every accepted parse the label is edited in place the way dawn's own callers do; the same text must then parse to the label recorded before.",
   note="Exhaustive only within the stated alphabet and length bound; confinement is judged by filepath.Rel against the project root."),
 "C13": dict(engine="projsim", level="exploration", section="4 C13", technique="model-based property testing (rapid): dry runs inserted into generated histories, differential against a real build of a full copy and against the same history without dry runs",
   text="Each dry run must leave the execution log, the tree and .dawn/build byte-identical (hash after Run == hash after Load) and must announce exactly the "
        "targets a real build of a full copy of the same tree and state evaluates (minus targets downstream of a failing body); the history without its dry "
        "runs must execute the same bodies in every real build.",
   note="State comparison starts after Load (the load-time record refresh is the baseline); projects as in C01."),
 "C14": dict(engine="projsim", level="exploration", section="4 C14", technique="model-based property testing (rapid): twin histories with/without garbage collection, plus invariants over the record directory after each collection",
   text="Histories with target/source additions and removals are run twice, with and without collections (full-load and index-preferring styles, strays "
        "planted in temp/). Executed bodies must agree build by build; after a collection live records are byte-identical, dead records gone (full style), "
        "temp/ empty, nothing outside .dawn/build touched. File and directory names may contain + % space & = , ~ $ and non-ASCII letters. Names may sit in dot-directories (record names then start with a dot).",
   note="A removed label is never re-created (the property's own quantifier); the removal clause is checked for full-load collections only."),
 "C15": dict(engine="starval", level="exploration", section="4 C15", technique="structure-aware mutation fuzzing (rapid) + coverage-guided native fuzzing (go test -fuzz) with a value-or-error oracle",
   text="Mutated valid encodings (values and real function environments), opcode soup and every truncation of the environment seeds are decoded with the "
        "generic, the dawn environment and no unpickler; every program of <=3 opcode atoms is enumerated; thorough adds a native coverage-guided campaign. Oracle: value xor error, well-formed value, no panic, no hang. Corrupted records of generated projects are loaded and built in child processes (fresh load, or watch session: corrupt under a loaded Project, Reload twice, Run): error reported or stale target rebuilt, never a crash or 'up to date'. Records are also restructured as values: parts added, removed, retyped, environments that contain themselves; hashable doubling DAGs appear as dict keys and set elements.",
   note="Inputs <= 4 KiB; declared 4-byte lengths larger than the input are excluded by an independent framing walker, as the statement allows; native fuzzing is not seed-reproducible (crashers become replay files)."),
 "C16": dict(engine="starval", level="exploration", section="4 C16", technique="property-based testing (rapid): reconstruction oracle over generated value pairs",
   text="Generated pairs (new derived from old by edits, or independent) are diffed; the oracle rebuilds both sequences from the edit list by position, checks "
        "old/new sides at every nesting level, mapping edits against the key sets, and nil-iff-equal; long sequences around the bounded search's restart point are enumerated. Rebuild reasons of generated histories must name every differing part of the environment (recomputed from the diff's two sides) and no equal one. A fifth of the ordinary builds of the reason histories are interrupted (child killed at a named point).",
   note="Trusts starlark.Equal as the equality notion; acyclic values; lengths <= 3000."),
 "C17": dict(engine="pure", level="exploration", section="4 C17", technique="property-based testing (rapid): differential against an independent recursive glob matcher, plus end-to-end glob()/os.glob/ignore on generated trees",
   text="Pattern lists (mostly 2+ patterns) and paths derived from the patterns (including prefix/suffix extensions) are compared with a reference matcher "
        "written from the statement; generated file trees check glob(), os.glob and the ignore list end to end. Atoms include digits, commas and text that is regexp syntax when unquoted ({2}, {1,2}, (?i), .*, a+). Letters whose UTF-8 encodings share leading bytes occur in patterns and paths.",
   note="Unescaped [ and ], newlines and invalid UTF-8 are outside the domain; empty list is only asked about non-empty paths."),
 "C18": dict(engine="projsim", level="exploration", section="4 C18", technique="model-based property testing (rapid): event-grammar and output-line oracle over generated histories with parallel targets, plus a reference model of the line writer under generated chunkings",
   text="The real line writer is driven by generated Write/Flush rounds against a split-by-newline model; generated projects with printing and chunk-writing "
        "bodies, failing bodies, missing and cyclic dependencies, dry runs and repeated runs of one loaded project are built and each label's event sequence, "
        "printed lines, ordering against dependencies and RunDone are checked. Dependencies may spell the bare label of an existing package next to its default target. Line-writer rounds include runs of 1000-131072 bytes without a newline (long lines arriving in pieces).",
   note="The CLI renderers (package main) are not executed; interleavings of parallel targets are whatever the real scheduler produces on 16 cores."),
 "C19": dict(engine="pure", level="exploration", section="4 C19", technique="property-based testing (rapid): write/load round-trip and re-write byte equality",
   text="Generated configurations with hostile strings and keys are written, loaded, compared, re-written (byte equality) and pushed through a get/tidy-style rewrite. One case in 250 is a large file (up to 25000 requirements, ignore patterns up to 1.2 MB).",
   note="Strings are valid UTF-8; requirement paths clean, versions canonical semver (the property's stated domain)."),
}

NOT_YET = {}

def main():
    checks = []
    for pid in sorted(CHECKS):
        c = CHECKS[pid]
        checks.append({
            "property_id": pid,
            "quick_cmd": f"./check {pid} quick",
            "thorough_cmd": f"./check {pid} thorough",
            "evidence_file": f"/verif/evidence/{pid}.json",
            "replay_cmd_template": f"./check {pid} --replay {{path}}",
            "engine": c["engine"],
            "level_claimed": {"category": c["level"], "text": c["text"], "design_ref": "DESIGN.md section " + c["section"]},
            "level_note": c["note"],
            "technique": c["technique"],
        })
    props = [json.loads(l)["id"] for l in open(os.path.join(HERE, "properties.jsonl"))]
    na = [{"property_id": p, "reason": NOT_YET.get(p, "check not built yet in this round (work in progress; see DESIGN.md section 4)")}
          for p in props if p not in CHECKS]
    m = {
        "version": 1,
        "setup_cmd": "./setup.sh",
        "hooks": {
            "guard": "verif",
            "enable": "go test -tags verif (the harness module replaces github.com/pgavlin/dawn with /repo, so every check compiles the current working tree)",
            "baseline_off_cmd": "cd /repo && GOFLAGS=-mod=mod GOPROXY=off GOSUMDB=off go test -vet=off -count=1 -timeout 25m ./...",
            "source_commits": hook_commits(),
            "add_only": True,
        },
        "engines": [
            {"name": "starval", "path": "harness/starval", "serves_properties": ["C07", "C15", "C16"], "kind_free_text": "Starlark value generator (plain-data descriptors), builder with sharing/cycles/host objects, isomorphism oracle"},
            {"name": "projsim", "path": "harness/projsim", "serves_properties": ["C01", "C02", "C03", "C08", "C13", "C14", "C18"], "kind_free_text": "generated dawn projects, edit/build history model, in-process and child-process executor with injected vf builtins, clean-twin builds, crash injection"},
            {"name": "cosched", "path": "harness/cosched + harness/rungraph", "serves_properties": ["C04", "C05", "C06", "C09", "C20"], "kind_free_text": "cooperative token scheduler / delay injector driven by verif-tagged hook call sites; generated graphs executed on the real runner"},
            {"name": "mvssim", "path": "harness/mvssim", "serves_properties": ["C10", "C11"], "kind_free_text": "generated requirement universes served through vcs.Repository, reference MVS and query resolver"},
            {"name": "ev", "path": "harness/ev", "serves_properties": sorted(CHECKS), "kind_free_text": "evidence collector, rapid driver, replay files, regression tier (regress/*.json re-executed without the generator library), known-findings handling"},
        ],
        "checks": checks,
        "not_applicable": na,
        "notes": "Driver: ./check <id> quick|thorough|--replay <file>. Exit 0 held / 1 VIOLATION / 2 infrastructure. known-findings.txt lists repaired (fixed:) and recorded (known:) defects.",
    }
    with open(os.path.join(HERE, "MANIFEST.json"), "w") as f:
        json.dump(m, f, indent=1)
        f.write("\n")

if __name__ == "__main__":
    main()
