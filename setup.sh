#!/bin/sh
# Offline setup: derive go.sum from the repository's and warm the Go build cache by
# compiling every property's test binary once. Nothing is fetched.
set -e
cd "$(dirname "$0")"
export GOFLAGS=-mod=mod GOPROXY=off GOSUMDB=off GOTOOLCHAIN=local
cp /repo/go.sum harness/go.sum
mkdir -p .work evidence replays
cd harness
for d in c[0-9][0-9]; do
  [ -d "$d" ] || continue
  go test -tags verif -c -o /dev/null "./$d" || echo "setup: building $d failed (reported again by its check)"
done
echo "setup done"
