#!/bin/bash
# usage: tools/benign_eval.sh <patch.diff> <property>...
# Applies a change that is claimed to PRESERVE the properties to /repo, confirms that it builds and that the
# repository's tests pass, runs the quick checks and reports QUIET / ALARM per property. Never leaves /repo modified.
set -u
patch="$(readlink -f "$1")"; shift
cd /repo || exit 2
if [ -n "$(git status --porcelain)" ]; then echo "repo not clean"; exit 2; fi
if ! git apply "$patch"; then echo "NOAPPLY $patch"; exit 2; fi
trap 'git -C /repo checkout -q -- . ; git -C /repo clean -fdq' EXIT
export GOFLAGS=-mod=mod GOPROXY=off GOSUMDB=off GOTOOLCHAIN=local
if ! go build ./... 2>/tmp/benign-build.log || ! go build -tags verif ./... 2>>/tmp/benign-build.log; then echo "NOBUILD $patch"; head -5 /tmp/benign-build.log; exit 2; fi
if ! go test -vet=off -count=1 ./... >/tmp/benign-suite.log 2>&1; then echo "SUITE-FAILS $patch"; grep -m3 FAIL /tmp/benign-suite.log; exit 2; fi
for p in "$@"; do
  out=$(cd /verif && VERIF_NO_EVIDENCE=1 VERIF_REPLAY_DIR=/tmp/verif-benign-replays ./check "$p" quick 2>&1)
  rc=$?
  if [ $rc -eq 1 ]; then echo "ALARM    $p on $patch: $(echo "$out" | grep -m1 'check=' | cut -c1-300)";
  elif [ $rc -eq 0 ]; then echo "QUIET    $p on $patch";
  else echo "INFRA($rc) $p on $patch: $(echo "$out" | grep -m2 INFRA | cut -c1-300)"; fi
done
