#!/bin/bash
# usage: tools/benign_eval.sh <patch.diff> <property>...
# Applies a change that is claimed to PRESERVE the properties to a scratch worktree of /repo's HEAD, confirms that it
# builds and that the repository's tests pass, runs the quick checks against the copy (VERIF_REPO) and reports
# QUIET / ALARM per property. /repo itself is never modified, no evidence is written.
set -u
patch="$(readlink -f "$1")"; shift
wt=$(mktemp -d /tmp/verif-ben-XXXXXX)
rmdir "$wt"
git -C /repo worktree add -q --detach "$wt" ${BENIGN_BASE:-HEAD} || exit 2
trap 'git -C /repo worktree remove --force "$wt" >/dev/null 2>&1; rm -rf "$wt" "/verif/.work/alt-$(printf %s "$wt" | sha1sum | cut -c1-10)"; git -C /repo worktree prune' EXIT
cd "$wt" || exit 2
if ! git apply "$patch"; then echo "NOAPPLY $patch"; exit 2; fi
export GOFLAGS=-mod=mod GOPROXY=off GOSUMDB=off GOTOOLCHAIN=local
if ! go build ./... 2>"$wt.log" || ! go build -tags verif ./... 2>>"$wt.log"; then echo "NOBUILD $patch"; head -5 "$wt.log"; rm -f "$wt.log"; exit 2; fi
if ! go test -vet=off -count=1 ./... >"$wt.log" 2>&1; then echo "SUITE-FAILS $patch"; grep -m3 FAIL "$wt.log"; rm -f "$wt.log"; exit 2; fi
rm -f "$wt.log"
for p in "$@"; do
  out=$(cd ${VERIF_DIR:-/verif} && VERIF_REPO="$wt" VERIF_NO_EVIDENCE=1 VERIF_REPLAY_DIR=/tmp/verif-benign-replays ./check "$p" quick 2>&1)
  rc=$?
  if [ $rc -eq 1 ]; then echo "ALARM    $p on $patch: $(echo "$out" | grep -m1 'check=' | cut -c1-300)";
  elif [ $rc -eq 0 ]; then echo "QUIET    $p on $patch";
  else echo "INFRA($rc) $p on $patch: $(echo "$out" | grep -m2 INFRA | cut -c1-300)"; fi
done
