#!/bin/bash
# Runs every own mutant against the quick check of the property named by its file-name prefix
# and writes mutations/RESULTS.txt. Each mutant is applied to a scratch worktree (tools/mutate.sh); /repo is not touched.
cd /verif
out=mutations/RESULTS.txt
echo "# mutant kill table, quick tier, $(date -u +%Y-%m-%dT%H:%MZ), /repo at $(git -C /repo log --format=%h -1)" > $out
for m in mutations/*.diff; do
  p=$(basename $m | cut -d- -f1)
  if ! git -C /repo apply --check /verif/$m 2>/dev/null; then echo "STALE    $p $(basename $m) (no longer applies to the repaired tree)" >> $out; continue; fi
  tools/mutate.sh $m $p 2>&1 | grep "KILLED\|SURVIVED\|INFRA\|COMPILE" | cut -c1-220 >> $out
done
cat $out | cut -c1-120
