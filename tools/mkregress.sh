#!/bin/bash
# usage: tools/mkregress.sh <fix-commit> <property>
# Reverts one fix: commit of /repo in the working tree (transiently), runs the property's quick check with the
# replay directory set to /verif/regress, and restores /repo. The replay files written there become the
# regression tier (re-executed by every later run of that check). Prints what happened.
set -u
c="$1"; p="$2"
cd /repo || exit 2
if [ -n "$(git status --porcelain)" ]; then echo "repo not clean"; exit 2; fi
if ! git diff "$c~1" "$c" -- . ':!*_test.go' | git apply -R 2>/tmp/mkregress.err; then echo "CONFLICT $c ($p): $(head -1 /tmp/mkregress.err)"; exit 0; fi
trap 'git -C /repo checkout -q -- . ' EXIT
export GOFLAGS=-mod=mod GOPROXY=off GOSUMDB=off GOTOOLCHAIN=local
if ! go build ./... 2>/tmp/mkregress.err; then echo "NOBUILD $c ($p)"; exit 0; fi
before=$(ls /verif/regress | wc -l)
out=$(cd /verif && VERIF_NO_EVIDENCE=1 VERIF_REPLAY_DIR=/verif/regress ./check "$p" quick 2>&1)
rc=$?
after=$(ls /verif/regress | wc -l)
echo "REVERTED $c ($p): rc=$rc new-regression-cases=$((after-before)) $(echo "$out" | grep -m1 'check=' | cut -c1-160)"
