#!/bin/bash
# usage: tools/mkregress.sh <fix-commit> <property>
# Reverts one "fix:" commit of /repo in a scratch worktree of HEAD, runs the property's quick check against that copy
# with the replay directory set to /verif/regress and removes the worktree. The replay files written there become the
# regression tier (re-executed by every later run of that check). /repo itself is never modified.
set -u
c="$1"; p="$2"
wt=$(mktemp -d /tmp/verif-reg-XXXXXX); rmdir "$wt"
git -C /repo worktree add -q --detach "$wt" HEAD || exit 2
trap 'git -C /repo worktree remove --force "$wt" >/dev/null 2>&1; rm -rf "$wt" "/verif/.work/alt-$(printf %s "$wt" | sha1sum | cut -c1-10)"; git -C /repo worktree prune' EXIT
cd "$wt" || exit 2
if ! git diff "$c~1" "$c" -- . ':!*_test.go' | git apply -R 2>"$wt.err"; then echo "CONFLICT $c ($p): $(head -1 "$wt.err")"; rm -f "$wt.err"; exit 0; fi
rm -f "$wt.err"
export GOFLAGS=-mod=mod GOPROXY=off GOSUMDB=off GOTOOLCHAIN=local
if ! go build ./... 2>/dev/null; then echo "NOBUILD $c ($p)"; exit 0; fi
before=$(ls /verif/regress | wc -l)
out=$(cd ${VERIF_DIR:-/verif} && VERIF_REPO="$wt" VERIF_NO_EVIDENCE=1 VERIF_REPLAY_DIR=/verif/regress ./check "$p" quick 2>&1)
rc=$?
after=$(ls /verif/regress | wc -l)
echo "REVERTED $c ($p): rc=$rc new-regression-cases=$((after-before)) $(echo "$out" | grep -m1 'check=' | cut -c1-160)"
