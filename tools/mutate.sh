#!/bin/bash
# usage: tools/mutate.sh <patch.diff> <property>...
# Applies the patch to a scratch worktree of /repo's HEAD (outside /repo and /verif), runs the quick checks against
# that copy (VERIF_REPO) and removes it. Prints KILLED/SURVIVED per property. /repo itself is never modified, no
# evidence is written.
set -u
patch="$(readlink -f "$1")"; shift
wt=$(mktemp -d /tmp/verif-mut-XXXXXX)
rmdir "$wt"
git -C /repo worktree add -q --detach "$wt" HEAD || exit 2
trap 'git -C /repo worktree remove --force "$wt" >/dev/null 2>&1; rm -rf "$wt" "/verif/.work/alt-$(printf %s "$wt" | sha1sum | cut -c1-10)"; git -C /repo worktree prune' EXIT
cd "$wt" || exit 2
if ! git apply "$patch"; then echo "patch does not apply: $patch"; exit 2; fi
export GOFLAGS=-mod=mod GOPROXY=off GOSUMDB=off GOTOOLCHAIN=local
if ! go build ./... 2>"$wt.build.log"; then echo "MUTANT DOES NOT COMPILE"; head "$wt.build.log"; rm -f "$wt.build.log"; exit 2; fi
rm -f "$wt.build.log"
for p in "$@"; do
  out=$(cd ${VERIF_DIR:-/verif} && VERIF_REPO="$wt" VERIF_NO_EVIDENCE=1 VERIF_REPLAY_DIR=/tmp/verif-mutant-replays ./check "$p" quick 2>&1)
  rc=$?
  if [ $rc -eq 1 ]; then echo "KILLED   $p by $(basename $patch): $(echo "$out" | grep -m1 'check=' | cut -c1-200)";
  elif [ $rc -eq 0 ]; then echo "SURVIVED $p vs $(basename $patch)";
  else echo "INFRA($rc) $p vs $(basename $patch): $(echo "$out" | grep -m2 INFRA)"; fi
done
