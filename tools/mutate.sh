#!/bin/bash
# usage: tools/mutate.sh <patch.diff> <property>... ; applies the patch to /repo, runs the quick checks, reverts.
# Prints KILLED/SURVIVED per property. Never leaves /repo modified.
set -u
patch="$(readlink -f "$1")"; shift
cd /repo || exit 2
if [ -n "$(git status --porcelain)" ]; then echo "repo not clean"; exit 2; fi
if ! git apply "$patch"; then echo "patch does not apply: $patch"; exit 2; fi
trap 'git -C /repo checkout -q -- . ' EXIT
export GOFLAGS=-mod=mod GOPROXY=off GOSUMDB=off GOTOOLCHAIN=local
if ! go build ./... 2>/tmp/mutate-build.log; then echo "MUTANT DOES NOT COMPILE"; cat /tmp/mutate-build.log | head; exit 2; fi
for p in "$@"; do
  out=$(cd /verif && VERIF_NO_EVIDENCE=1 VERIF_REPLAY_DIR=/tmp/verif-mutant-replays ./check "$p" quick 2>&1)
  rc=$?
  if [ $rc -eq 1 ]; then echo "KILLED   $p by $(basename $patch): $(echo "$out" | grep -m1 'check=' | cut -c1-200)";
  elif [ $rc -eq 0 ]; then echo "SURVIVED $p vs $(basename $patch)";
  else echo "INFRA($rc) $p vs $(basename $patch): $(echo "$out" | grep -m2 INFRA)"; fi
done
