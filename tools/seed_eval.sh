#!/bin/bash
# usage: tools/seed_eval.sh <Cxx> <demo-file> <package-dir-relative-to-repo-root> "<go test args for demo>" [props to check...]
# Confirms a sub-agent's seeded change in its scratch worktree (builds, suite, demo with/without), then runs our quick checks against it.
set -u
id="$1"; demo="$2"; pkgdir="$3"; demoargs="$4"; shift 4
wt=/tmp/seed/$id/wt; out=/tmp/seed/$id/out
export GOFLAGS=-mod=mod GOPROXY=off GOSUMDB=off GOTOOLCHAIN=local
cd $wt || exit 2
git checkout -q -- . ; git clean -fdq
res="{}"
echo "== $id: demo WITHOUT patch"
cp $out/$demo $wt/$pkgdir/ 
( cd $wt && go test -vet=off -count=1 $demoargs 2>&1 | tail -3 ); r_without=${PIPESTATUS[0]}
( cd $wt && go test -vet=off -count=1 $demoargs >/dev/null 2>&1 ); r_without=$?
rm -f $wt/$pkgdir/$demo
echo "== $id: apply patch, builds, suite"
git apply $out/patch.diff || { echo "PATCH DOES NOT APPLY"; exit 2; }
go build ./... && go build -tags verif ./... ; r_build=$?
go test -vet=off -count=1 ./... 2>&1 | grep -v "no test files" | tail -12; 
go test -vet=off -count=1 ./... >/dev/null 2>&1; r_suite=$?
echo "== $id: demo WITH patch"
cp $out/$demo $wt/$pkgdir/
( cd $wt && go test -vet=off -count=1 $demoargs 2>&1 | tail -5 )
( cd $wt && go test -vet=off -count=1 $demoargs >/dev/null 2>&1 ); r_with=$?
rm -f $wt/$pkgdir/$demo
git checkout -q -- . ; git clean -fdq
echo "RESULT $id build=$r_build suite=$r_suite demo_without=$r_without demo_with=$r_with  (want 0 0 0 nonzero)"
if [ $r_build -ne 0 ] || [ $r_suite -ne 0 ] || [ $r_without -ne 0 ] || [ $r_with -eq 0 ]; then echo "SEED NOT CONFIRMED"; exit 1; fi
echo "== $id: our checks"
for p in "$@"; do /verif/tools/mutate.sh $out/patch.diff $p; done
