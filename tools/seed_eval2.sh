#!/bin/bash
# usage: tools/seed_eval2.sh <base dir> <Cxx> [props to check...]
# <base>/<Cxx>/out holds patch.diff, *_test.go demo(s) and notes.md whose first line is
#   DEMO: <package dir relative to repo root> | <go test arguments>
# Confirms the seeded change in its scratch worktree <base>/<Cxx>/wt, then runs our quick checks against it.
set -u
base="$1"; id="$2"; shift 2
wt=$base/$id/wt; out=$base/$id/out
export GOFLAGS=-mod=mod GOPROXY=off GOSUMDB=off GOTOOLCHAIN=local
line=$(grep -m1 '^DEMO:' $out/notes.md | sed 's/^DEMO:[ ]*//')
pkgdir=$(echo "$line" | cut -d'|' -f1 | xargs); demoargs=$(echo "$line" | cut -d'|' -f2- | xargs)
[ -z "$pkgdir" ] && { echo "no DEMO line in notes.md"; exit 2; }
cd $wt || exit 2
git checkout -q -- . ; git clean -fdq
place() { for f in $out/*_test.go; do cp $f $wt/$pkgdir/; done; }
unplace() { for f in $out/*_test.go; do rm -f $wt/$pkgdir/$(basename $f); done; }
place; ( go test -vet=off -count=1 $demoargs >/tmp/seed-demo-without.log 2>&1 ); r_without=$?; unplace
git apply $out/patch.diff || { echo "PATCH DOES NOT APPLY"; exit 2; }
( go build ./... && go build -tags verif ./... ) >/tmp/seed-build.log 2>&1; r_build=$?
go test -vet=off -count=1 ./... >/tmp/seed-suite.log 2>&1; r_suite=$?
place; ( go test -vet=off -count=1 $demoargs >/tmp/seed-demo-with.log 2>&1 ); r_with=$?; unplace
git checkout -q -- . ; git clean -fdq
echo "RESULT $id build=$r_build suite=$r_suite demo_without=$r_without demo_with=$r_with  (want 0 0 0 nonzero)  demo: $pkgdir | $demoargs"
if [ $r_build -ne 0 ] || [ $r_suite -ne 0 ] || [ $r_without -ne 0 ] || [ $r_with -eq 0 ]; then echo "SEED NOT CONFIRMED"; tail -5 /tmp/seed-demo-without.log /tmp/seed-suite.log | cut -c1-300; exit 1; fi
grep -m2 -- "--- FAIL\|FAIL:" /tmp/seed-demo-with.log | cut -c1-200
for p in "$@"; do /verif/tools/mutate.sh $out/patch.diff $p; done
