#!/bin/bash
# usage: tools/seed_round.sh <base dir> : evaluates every <base>/Cxx that has out/patch.diff with its own property's quick check
base="$1"
for d in $base/C??; do
  id=$(basename $d)
  [ -f $d/out/patch.diff ] || { echo "SKIP $id (no patch)"; continue; }
  /verif/tools/seed_eval2.sh $base $id $id 2>&1 | grep "RESULT\|KILLED\|SURVIVED\|NOT CONFIRMED\|INFRA\|DOES NOT" | cut -c1-260
done
