#!/usr/bin/env python3
import json,sys
r=json.load(open(sys.argv[1]))
print(r['message'][:500]); c=r['case']; m=c['m']
print('pkgs',m['pkgs'],'helpers',m.get('helpers'),'flag',m.get('flagarg'))
for t in m['targets']: print('  ',{k:v for k,v in t.items() if v not in (None,[],'',0,False) or k in('id','body')})
print('files',sorted(m['files'].keys()))
for i,o in enumerate(c['ops']): print(i,o)
